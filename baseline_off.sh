#!/bin/bash
# Runs the repository's own test suite with the `verif` guard OFF and compares with BASELINE.json.
set -u
cd /repo
export CARGO_NET_OFFLINE=true
if [ -f /w/lib/nextest.toml ]; then
  cargo nextest run --workspace --no-fail-fast --tool-config-file pb:/w/lib/nextest.toml --profile pb --test-threads 8 --offline >/tmp/verif_baseline.log 2>&1
  J=/repo/target/nextest/pb/junit.xml
else
  cargo nextest run --workspace --no-fail-fast --test-threads 8 --offline >/tmp/verif_baseline.log 2>&1
  J=
fi
python3 - "$J" <<'PY'
import json, sys, re, xml.etree.ElementTree as ET
base = set(json.load(open('/root/.vp/BASELINE.json'))['stable_pass'])
passed = set()
j = sys.argv[1]
if j:
    for tc in ET.parse(j).getroot().iter('testcase'):
        ok = not any(c.tag in ('failure', 'error') for c in tc)
        cls = tc.get('classname', '')
        name = tc.get('name', '')
        crate = cls.split('::')[0]
        if ok:
            passed.add('%s::%s' % (crate, name))
            passed.add('%s::%s' % (cls, name))
else:
    for line in open('/tmp/verif_baseline.log'):
        m = re.match(r'\s+PASS \[.*?\]\s+(\S+)\s+(\S+)', line)
        if m:
            passed.add('%s::%s' % (m.group(1).split('::')[0], m.group(2)))
missing = sorted(t for t in base if t not in passed)
print('baseline tests: %d, passing now: %d, missing/failed: %d' % (len(base), len(base) - len(missing), len(missing)))
for t in missing[:40]:
    print('  NOT PASSING:', t)
sys.exit(1 if missing else 0)
PY
