#!/usr/bin/env python3
"""Regenerates MANIFEST.json from the table below (kept in one place so it stays valid)."""
import json, os, subprocess
HERE = os.path.dirname(os.path.abspath(__file__))
props = [json.loads(l) for l in open(os.path.join(HERE, "properties.jsonl"))]
CHECKS = {
 "C13": dict(technique="metamorphic + differential runtime monitoring: each seeded macro scenario is run on the real engine with colliding spellings and with every binder spelled apart, and both are compared with a plain-substitution expander + reference machine applied to the spelled-apart text; greedy respelling attributes a divergence to the colliding roles",
             text="Exploration: seeded scenarios of 1-13 syntax-rules definitions from 16 parametric families (temporaries, named-let loops, recursive macros, literals, ellipses, templates that use other macros, macro-defining macros, macros expanding to definitions) with 2-4 use sites inside local scopes, every identifier drawn from one pool of 16 spellings (so template binders, user variables, the templates' free globals and builtins collide all the time), run at the top level, as a module, with the JIT off and with the macros imported from a module; pattern programs (10 families: nested ellipses to depth 3, tail patterns, dotted patterns, literals, constants) with seeded argument shapes including uses that match no rule (must be rejected without panic or effect). Oracle: engine(colliding text) = engine(apart text) = reference(expand(apart text)).",
             note="Trusted: vlib/macroexp.py (plain substitution; equals hygienic expansion when no two bindings share a spelling) and vlib/schemeref.py. Identifiers with Steel's reserved ## prefix are not generated. Local define-syntax is not supported by Steel and not generated.", ref="DESIGN.md §5 C13"),
 "C10": dict(technique="differential runtime monitoring: real engine vs Python int/Fraction/float oracle over seeded operand/shape workloads",
             text="Exploration: the real engine evaluates seeded arithmetic expressions (all operand classes x all syntactic shapes that select a different code path, JIT on and off) and every result is compared with exact Python arithmetic through a printer-independent canonical rendering. Held = no unexplained mismatch on the expressions evaluated.",
             note="Trusted: Python int/Fraction/IEEE float as the reference; harness canonical rendering (steel::verif::canon). Sampled, not exhaustive.", ref="DESIGN.md §5 C10"),
 "C12": dict(technique="runtime monitoring of the real parser/reader: panic+span monitor on hostile texts, print/parse and write/read round-trip oracles",
             text="Exploration: steel-parser is driven directly on seeded hostile texts (panic hook, process-death detection, span-in-bounds monitor); parse(print(parse t)) is compared with parse t with spans erased on shipped/well-formed programs; generated data are written and read back through the real engine and compared by canonical rendering (doubles by bits).",
             note="Trusted: the harness's Debug-based tree comparison and canonical rendering. Invalid UTF-8 cannot reach the &str API and is lossy-decoded first.", ref="DESIGN.md §5 C12"),
 "C07": dict(technique='runtime monitoring under hostile inputs: panic hook + child exit status + before/after probe comparison on the same engine; fork-per-case isolation',
             text='Exploration: seeded hostile source texts (singly and as multi-unit histories), calls of every non-effectful procedure bound in a fresh engine with arguments of every value kind and boundary magnitudes (plus an adaptive sweep of integer parameters), and functions applying each operator that has its own opcode / native helper to ill-typed run-time operands in 11 code shapes (compiled as a module = native code, top level, JIT off) are run on the real engine in forked children; a panic reaching the host boundary, a signal/abort/stack overflow, or a probe program answering differently after the input than before is a violation.',
             note='Trusted: fork isolation and the panic hook. Allocation-failure aborts under the address-space cap and time-outs are inconclusive, not crashes. Externally effectful/blocking builtins are deny-listed.', ref="DESIGN.md §5 C07"),
 "C09": dict(technique="invariant at a hook: frame/operand stack depth sampled inside running loops via #%verif-stack-depth; process-survival and peak-RSS monitors at n and 10n iterations",
             text="Exploration: generated tail-loop shapes are run for 10^3..10^5 (quick) / 10^7 (thorough) iterations with JIT on and off; depth samples taken inside the loop at the first, middle and last iteration must stay within a 16-slot slack, the result must equal the closed form, the process must survive, peak RSS at 10n may exceed that at n by at most 48 MB; deep non-tail recursion must end in an error value.",
             note="Trusted: the depth hook reports lengths of the VM's frame and operand stacks; native stack use is covered only by process survival.", ref="DESIGN.md §5 C09"),
 "C18": dict(technique="runtime monitoring of child processes: exit-status / stack-overflow / panic monitors per (shape x operation x depth), deep values held inside containers of another kind on a 1 MB stack, rings of 10^5 containers, seeded cyclic graphs with every node as root, termination deadline for cyclic structures",
             text="Exploration: each (value shape x operation x depth) runs on the real engine in its own forked child (default 8 MB stack; 1 MB in the thorough tier); a death by signal/abort, a panic, or non-termination on a <=10-cell cyclic structure is a violation; an error value is accepted.",
             note="Trusted: fork isolation. Time-outs on deep acyclic values and address-space-cap aborts are inconclusive cases.", ref="DESIGN.md §5 C18"),
 "C01": dict(technique="differential runtime monitoring: real engine (top-level, module mode, JIT off) vs reference CEK machine on seeded type-directed programs; tree-shrinking of witnesses; root-cause attribution",
             text="Exploration: seeded programs accepted by the reference machine under both operand evaluation orders are run on the real engine as a top-level evaluation, as a required module (how `steel file.scm` runs a script) and with the JIT off; outcome, the values passed to (verif-emit ..) in a printer-independent rendering, and stdout are compared; divergences are confirmed alone, shrunk, and attributed to a known root cause by a predicate over the shrunk witness or reported.",
             note="Trusted: vlib/schemeref.py (CEK machine, pinned deviations listed in its docstring) as the reading of the semantics for the generated subset; the generator steers around constructs of known findings, whose fixed witnesses are re-evaluated every run.", ref="DESIGN.md §5 C01"),
 "C02": dict(technique='N-version runtime monitoring: the real engine against itself across OS processes with different STEEL_* switch settings, top-level and module mode, plus multi-unit histories and ill-typed-operand programs',
             text='Exploration: the C01 corpus (reference-accepted, deterministic), 3-unit redefinition/assignment histories and functions applying inlinable operators to ill-typed run-time operands (errors trapped by a compiled caller) are evaluated under 8 (quick) / 32 (thorough) settings of the five optimisation switches x {top level, module}; any difference in (outcome, emitted values, stdout) from the all-off baseline is a violation, attributed to the single switch that produces it.',
             note='Trusted: determinism of the corpus (accepted by the reference machine under both operand orders). The all-off configuration is the baseline.', ref="DESIGN.md §5 C02"),
 "C06": dict(technique="differential runtime monitoring over long evaluation histories on one engine vs an executable binding model; H-slot freed-slot-access monitor armed",
             text="Exploration: seeded histories of up to 260 (quick) / 900 (thorough) top-level units over 8 names (hundreds of shadowings, so the global-slot recycler runs), with old functions kept alive in containers and probed every 7 units, failing units of both kinds; every unit's observation is compared with the reference machine's unit/binding model; JIT on and off.",
             note="Trusted: Machine.run_unit as the binding model. After the first divergence of a history the rest of that history is not judged.", ref="DESIGN.md §5 C06"),
 "C03": dict(technique="differential runtime monitoring vs a reference with persistent collections; aliases re-observed by the program after every update; uniqueness fast-path counter (H-cov) as reach evidence",
             text="Exploration: seeded sequences of functional updates on hash maps, hash sets, lists, immutable vectors and strings under 13 aliasing patterns (unaliased / aliased with later or last use / closure / container / passed twice / library callback / apply / function parameter at last use or not / other thread / let chain); every alias and observer is re-emitted after every update and compared with the reference machine (top level, module, JIT off).",
             note="Trusted: the reference's collections are persistent by construction. The engine's get_mut-unique counter must be > 0 for the in-place path to have been exercised.", ref="DESIGN.md §5 C03"),
 "C08": dict(technique="template-driven differential runtime monitoring vs a reference machine with explicit continuation frames, winders list and handler stack; wind thunk traces; forced collections at every allocation",
             text="Exploration: 20+ control-flow templates x 15 capture contexts x seeded parameters, compared with the reference machine on outcome, emitted values and the dynamic-wind trace; run at the top level, as a module, with the JIT off, and with a forced full collection at every (3rd) allocation with the freed-slot monitor armed.",
             note="Trusted: vlib/schemeref.py's call/cc, dynamic-wind and with-handler. Re-entry from a later top-level form is checked for top-level evaluation only (in a module a form's continuation includes the following forms).", ref="DESIGN.md §5 C08"),
 "C11": dict(technique="differential runtime monitoring vs structural equality of canonical renderings and Python sequence/dict/set models",
             text="Exploration: generated pairs/triples of values of all kinds with explicit sharing and diamond DAGs (equal?, symmetry, transitivity, interchangeability as hash keys / set members) and seeded operation sequences on each collection kind, compared with the reference machine (top level, module, JIT off).",
             note="Trusted: canonical rendering equality as the definition of structural equality; exact and inexact numbers differ; mutable vs immutable vectors are not cross-compared.", ref="DESIGN.md §5 C11"),
 "C04": dict(technique="invariant at a hook (H-slot: access through a handle to a slot the collector freed) + poisoning of freed slots + differential comparison with the reference machine, under the engine's own collections after cyclic garbage (natural cadence) and under forced full collections at every k-th allocation",
             text="Exploration: root-placement templates (pending argument, let temporary, closure capture, open/closed continuation, exception handler incl. one reachable only through a continuation, wind thunk, global and shadowed global, nested containers, another thread's stack and thread-local slot, the value being allocated) run with a forced full collection (through the engine's own mark/stop-the-world code) at every 1st/3rd/jittered allocation, JIT on/off, top level and module.",
             note="Trusted: hook H-gc drives the engine's own mark code; poisoning makes stale reads visible. Values returned to the host (not rooted) are not inspected.", ref="DESIGN.md §5 C04"),
 "C05": dict(technique="Miri (UB / use-after-free / data-race interpreter, many scheduler seeds) + native stress of a shadow-model history driver for steel-rc, each history plainly and under a quarantine hook (H-rcq: destroyed boxes poisoned and kept, entry points report being handed one; injected delay after a published merge) + two targeted schedule families (owner's last drop / owner's explicit merge against a foreign last drop)",
             text="Exploration: seeded histories of new/clone/drop/move/get_mut/make_mut/try_unwrap/merge/thread-exit on <=3 threads with an exact shadow count (sequential mode) or schedule-independent assertions (concurrent mode): ~10^5 (quick) / 10^7 (thorough) native operations and 16 (quick) / 512 (thorough) Miri executions.",
             note="Trusted: Miri's model of Rust semantics; schedules are sampled, not enumerated. Only steel-rc is interpreted by Miri (steel-core cannot run under it).", ref="DESIGN.md §5 C05"),
 "C15": dict(technique="invariants at hooks (H-sync: a thread found executing while its context pointer is still published as parked; per-thread 'being inspected' flag set around every foreign read/write of a thread's state by a stopper and checked by the thread at every instruction boundary and when it leaves a safepoint; H-slot freed-slot-access monitor) under thread stress with seeded delays injected at the handshake's suspension points and forced collections through the engine's own stop-the-world code; crash monitor; result oracles for stack-only box chains, global visibility and mutex-protected counters",
             text="Exploration: generated programs with 1..8 native threads of 11 kinds (channels direct / via map / via apply, mutex-protected global counters, global assignment racing with collections, concurrent collectors, stack-only box chains, threads spawning threads, threads exiting during collections, assign-then-tell visibility) under JIT on/off, top level and compiled as a module, forced full collections every k-th allocation and seeded delays between a thread's last look at its pause flag and the retraction of its context; a '!ran-while-inspected' or freed-slot-access event, a crash, a truncated chain, a stale global or an inexact counter is a violation. Evidence lists the monitors' observations (stop-the-world operations, inspections of other threads, safepoint entries).",
             note='OS schedules are sampled (perturbed by the injected delays), not enumerated. The flag is checked where a thread starts touching its own state again; a thread running pure native code between two helper calls is not observed until the next call.', ref="DESIGN.md §5 C15"),
 "C16": dict(technique="bounded-progress monitoring with a stall watchdog on hook counters (H-prog: instructions dispatched, safepoint entries, stop-the-world begun/finished, collections; 'stoppers active' gauge tells a runtime rendezvous from script-level blocking) inside killable children + exactly-once / per-sender FIFO checks computed by the program over the received history",
             text='Exploration: the same generated thread programs and configurations as C15; a run in which no progress counter moved for 10 s is stalled (violation, with the counters and whether a stop request was pending); reaching the 150 s wall-clock cap while counters still move is inconclusive; joins deliver each result once, every sent value is received once and in order per sender.',
             note="Liveness is restated as bounded progress decided on logical progress counters, not on the wall clock. The programs' own logic cannot block. Address-space-cap aborts are inconclusive.", ref="DESIGN.md §5 C16"),
 "C17": dict(technique="runtime monitoring of interruption: a second host thread calls ThreadStateController::interrupt() after a seeded delay while Engine::run executes a non-terminating shape; return time, result and post-resume probe observed from a parent process",
             text="Exploration: 23 non-terminating shapes x {JIT on, JIT off, module} x interrupt delays 0..600 ms; violation = Engine::run has not returned 25 s after the request, returns Ok, panics, or the probe after resume() answers wrongly.",
             note="'Bounded number of further steps' is decided by a generous wall-clock bound (no dispatch-counter hook was built).", ref="DESIGN.md §5 C17"),
 "C19": dict(technique="invariant at a hook (H-heap: live slots after forced full collections, allocator free count vs flags) over allocation patterns with a known live set, redefinition histories, cross-thread garbage and natively compiled allocation loops; slot-vector growth sampling under the natural policy; weak boxes",
             text="Exploration: 12 garbage patterns (acyclic, cycles of length 1..50 through boxes/vectors/struct fields, self-capturing closures, garbage held by a local during a collection, by a dead continuation, by exited threads) at two sizes: live slots after two forced full collections must not grow with the amount of garbage; natural-policy runs of 4*10^6 (quick) / 10^8 (thorough) allocations must keep the slot vectors bounded; a dead weak-box target must report dead.",
             note="'Eventually' = by the second forced full collection after the pattern ended. Liveness is read from the collector's own reachable flags.", ref="DESIGN.md §5 C19"),
 "C20": dict(technique="runtime monitoring of embedding code: recording host functions, round-trip / range oracles over seeded boundary values by three routes, lent Box freed after the call with a magic-word liveness check, all in a forked child",
             text="Exploration: ~6 000 observations per quick run: round trips of every supported host type (three routes, plus the value the script sees), ~55 out-of-range / mistyped conversions that must be Err, ~50 calls of 14 registered functions with valid and invalid arity / kinds (direct, apply, map) observed by recording functions, 11 ways for a script to stash a lent reference and use it after the call.",
             note="Use-after-free of the lent object is observed through a magic word, the recording counter and process death (no ASan). Symbol -> String conversion is pinned as designed.", ref="DESIGN.md §5 C20"),
 "C14": dict(technique="differential runtime monitoring of generated module graphs against a visibility / instantiate-once model; body evaluation counted by a host function the harness registers",
             text="Exploration: seeded acyclic module graphs (2..8 files, overlapping private and provided spellings, all require modifiers, diamonds, contracted provides, importers assigning their alias of an imported name) and histories of requiring evaluations on one engine incl. hidden-name probes, boundary-contract probes and a compile-time failure; JIT on/off and STEEL_MODULE_INLINE on.",
             note="Trusted: the Python visibility model and the tick table of the harness. cycles and dylib modules are not generated.", ref="DESIGN.md §5 C14"),
}
NOT_YET = "check not built yet in this session (planned in DESIGN.md §5); no claim is made"
NA = {
}
man = {
 "version": 1,
 "setup_cmd": "./setup.sh",
 "hooks": {
  "guard": "cargo feature `verif` on steel-core (and steel-rc; the steel-rc quarantine additionally needs steel_rc::verif::enable() at run time, which only /verif/rcmiri calls)",
  "enable": "the harness crate /verif/harness depends on /repo/crates/steel-core by path with features [..workspace set.., \"verif\"]; every ./check run rebuilds it from /repo's working tree (cargo build --release --offline, target dir /verif/.build)",
  "baseline_off_cmd": "/verif/baseline_off.sh",
  "source_commits": [],
  "add_only": True,
 },
 "engines": [
  {"name": "vharness", "path": "harness/", "serves_properties": sorted(CHECKS), "kind_free_text": "Rust binary embedding the real engine with hooks on; fork-per-case isolation; JSONL in/out"},
  {"name": "rcmiri", "path": "rcmiri/", "serves_properties": ["C05"], "kind_free_text": "steel-rc history driver with shadow model; native + cargo miri"},
  {"name": "vlib", "path": "vlib/", "serves_properties": sorted(CHECKS), "kind_free_text": "Python generators, reference models, oracles, evidence writer"},
 ],
 "checks": [],
 "not_applicable": [],
 "notes": "All checks: ./check <id> --tier quick|thorough; VERIF_SEED seeds every generator. Known findings: known_findings.json.",
}
try:
    log = subprocess.run(["git", "-C", "/repo", "log", "--format=%H %s"], capture_output=True, text=True).stdout.splitlines()
    man["hooks"]["source_commits"] = [l.split()[0] for l in log if " verif hook:" in l]
except Exception:
    pass
for p in props:
    pid = p["id"]
    if pid in CHECKS:
        c = CHECKS[pid]
        man["checks"].append({
            "property_id": pid,
            "quick_cmd": "./check %s --tier quick" % pid,
            "thorough_cmd": "./check %s --tier thorough" % pid,
            "evidence_file": "evidence/%s.json" % pid,
            "replay_cmd_template": "./check %s --replay {path}" % pid,
            "engine": "rcmiri" if pid == "C05" else "vharness",
            "level_claimed": {"category": "exploration", "text": c["text"], "design_ref": c["ref"]},
            "level_note": c["note"],
            "technique": c["technique"],
        })
    else:
        man["not_applicable"].append({"property_id": pid, "reason": NA.get(pid, NOT_YET)})
json.dump(man, open(os.path.join(HERE, "MANIFEST.json"), "w"), indent=1)
print("checks:", [c["property_id"] for c in man["checks"]])
