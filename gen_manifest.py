#!/usr/bin/env python3
"""Regenerates MANIFEST.json from the table below (kept in one place so it stays valid)."""
import json, os, subprocess
HERE = os.path.dirname(os.path.abspath(__file__))
props = [json.loads(l) for l in open(os.path.join(HERE, "properties.jsonl"))]
CHECKS = {
 "C10": dict(technique="differential runtime monitoring: real engine vs Python int/Fraction/float oracle over seeded operand/shape workloads",
             text="Exploration: the real engine evaluates seeded arithmetic expressions (all operand classes x all syntactic shapes that select a different code path, JIT on and off) and every result is compared with exact Python arithmetic through a printer-independent canonical rendering. Held = no unexplained mismatch on the expressions evaluated.",
             note="Trusted: Python int/Fraction/IEEE float as the reference; harness canonical rendering (steel::verif::canon). Sampled, not exhaustive.", ref="DESIGN.md §5 C10"),
 "C12": dict(technique="runtime monitoring of the real parser/reader: panic+span monitor on hostile texts, print/parse and write/read round-trip oracles",
             text="Exploration: steel-parser is driven directly on seeded hostile texts (panic hook, process-death detection, span-in-bounds monitor); parse(print(parse t)) is compared with parse t with spans erased on shipped/well-formed programs; generated data are written and read back through the real engine and compared by canonical rendering (doubles by bits).",
             note="Trusted: the harness's Debug-based tree comparison and canonical rendering. Invalid UTF-8 cannot reach the &str API and is lossy-decoded first.", ref="DESIGN.md §5 C12"),
}
NOT_YET = "check not built yet in this session (planned in DESIGN.md §5); no claim is made"
man = {
 "version": 1,
 "setup_cmd": "./setup.sh",
 "hooks": {
  "guard": "cargo feature `verif` on steel-core (and steel-rc)",
  "enable": "the harness crate /verif/harness depends on /repo/crates/steel-core by path with features [..workspace set.., \"verif\"]; every ./check run rebuilds it from /repo's working tree (cargo build --release --offline, target dir /verif/.build)",
  "baseline_off_cmd": "/verif/baseline_off.sh",
  "source_commits": [],
  "add_only": True,
 },
 "engines": [
  {"name": "vharness", "path": "harness/", "serves_properties": sorted(CHECKS), "kind_free_text": "Rust binary embedding the real engine with hooks on; fork-per-case isolation; JSONL in/out"},
  {"name": "vlib", "path": "vlib/", "serves_properties": sorted(CHECKS), "kind_free_text": "Python generators, reference models, oracles, evidence writer"},
 ],
 "checks": [],
 "not_applicable": [],
 "notes": "All checks: ./check <id> --tier quick|thorough; VERIF_SEED seeds every generator. Known findings: known_findings.json.",
}
try:
    log = subprocess.run(["git", "-C", "/repo", "log", "--format=%H %s"], capture_output=True, text=True).stdout.splitlines()
    man["hooks"]["source_commits"] = [l.split()[0] for l in log if " verif hook:" in l]
except Exception:
    pass
for p in props:
    pid = p["id"]
    if pid in CHECKS:
        c = CHECKS[pid]
        man["checks"].append({
            "property_id": pid,
            "quick_cmd": "./check %s --tier quick" % pid,
            "thorough_cmd": "./check %s --tier thorough" % pid,
            "evidence_file": "evidence/%s.json" % pid,
            "replay_cmd_template": "./check %s --replay {path}" % pid,
            "engine": "vharness",
            "level_claimed": {"category": "exploration", "text": c["text"], "design_ref": c["ref"]},
            "level_note": c["note"],
            "technique": c["technique"],
        })
    else:
        man["not_applicable"].append({"property_id": pid, "reason": NOT_YET})
json.dump(man, open(os.path.join(HERE, "MANIFEST.json"), "w"), indent=1)
print("checks:", [c["property_id"] for c in man["checks"]])
