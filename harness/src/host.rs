//! `vharness host` (C20): the host boundary.  Everything here is plain embedding code: conversions
//! through IntoSteelVal / FromSteelVal by three routes, registered host functions called with wrong
//! arity / kinds, and host references lent for the duration of a call and stashed by the script.
//! The whole experiment runs in a forked child (a crash is an observation); observations are JSON
//! lines {"part":..,"case":..,"verdict":..}.

use crate::run::fork_run;
use crate::util::*;
use serde_json::{json, Value};
use std::collections::{HashMap, HashSet};
use std::io::Write;
use std::sync::atomic::{AtomicUsize, Ordering};
use steel::gc::unsafe_erased_pointers::CustomReference;
use steel::rvals::{FromSteelVal, IntoSteelVal};
use steel::steel_vm::engine::Engine;
use steel::steel_vm::register_fn::RegisterFn;
use steel::SteelVal;

struct Rng(u64);
impl Rng {
    fn next(&mut self) -> u64 {
        let mut x = self.0;
        x ^= x >> 12;
        x ^= x << 25;
        x ^= x >> 27;
        self.0 = x;
        x.wrapping_mul(0x2545F4914F6CDD1D)
    }
}

static ENTERED: AtomicUsize = AtomicUsize::new(0);
static LAST_ARGS: std::sync::Mutex<String> = std::sync::Mutex::new(String::new());

fn record(s: String) {
    ENTERED.fetch_add(1, Ordering::SeqCst);
    *LAST_ARGS.lock().unwrap() = s;
}

// ---- registered host functions of several signature shapes
fn h_add(a: isize, b: isize) -> isize {
    record(format!("h_add({a},{b})"));
    a.wrapping_add(b)
}
fn h_u8(a: u8) -> usize {
    record(format!("h_u8({a})"));
    a as usize
}
fn h_i32(a: i32) -> isize {
    record(format!("h_i32({a})"));
    a as isize
}
fn h_u64(a: u64) -> String {
    record(format!("h_u64({a})"));
    format!("{a}")
}
fn h_usize(a: usize) -> String {
    record(format!("h_usize({a})"));
    format!("{a}")
}
fn h_i16(a: i16) -> isize {
    record(format!("h_i16({a})"));
    a as isize
}
fn h_str(a: String, b: char) -> String {
    record(format!("h_str({a:?},{b:?})"));
    format!("{a}{b}")
}
fn h_f64(a: f64) -> f64 {
    record(format!("h_f64({a})"));
    a
}
fn h_bool(a: bool) -> bool {
    record(format!("h_bool({a})"));
    !a
}
fn h_vec(a: Vec<isize>) -> isize {
    record(format!("h_vec({a:?})"));
    a.iter().sum()
}
fn h_opt(a: Option<isize>) -> isize {
    record(format!("h_opt({a:?})"));
    a.unwrap_or(-1)
}
fn h_none() -> isize {
    record("h_none()".to_string());
    7
}

// ---- an owned host object (Custom type) with &self / &mut self methods that take further arguments
#[derive(Clone)]
struct HostCounter {
    n: isize,
}
impl steel::rvals::Custom for HostCounter {}
impl HostCounter {
    fn new() -> Self {
        HostCounter { n: 0 }
    }
    fn add(&mut self, k: isize) -> isize {
        record(format!("HostCounter::add({k})"));
        self.n = self.n.wrapping_add(k);
        self.n
    }
    fn add2(&mut self, a: isize, b: String) -> isize {
        record(format!("HostCounter::add2({a},{b:?})"));
        self.n
    }
    fn get(&self) -> isize {
        record("HostCounter::get()".to_string());
        self.n
    }
    fn scale(&self, a: isize, b: isize) -> isize {
        record(format!("HostCounter::scale({a},{b})"));
        self.n.wrapping_mul(a).wrapping_add(b)
    }
}

// ---- a host object lent by reference
const MAGIC: u64 = 0x1EA7_BEEF_CAFE_F00D;
struct HostObj {
    magic: u64,
    value: usize,
}
impl HostObj {
    fn get(&mut self) -> usize {
        if self.magic != MAGIC {
            record("HostObj::get on a DEAD object".to_string());
            return usize::MAX;
        }
        record(format!("HostObj::get({})", self.value));
        self.value
    }
    fn bump(&mut self) -> usize {
        if self.magic != MAGIC {
            record("HostObj::bump on a DEAD object".to_string());
            return usize::MAX;
        }
        self.value += 1;
        record(format!("HostObj::bump({})", self.value));
        self.value
    }
}
impl CustomReference for HostObj {}
steel::custom_reference!(HostObj);

fn obs(chan: &mut std::fs::File, part: &str, case: String, verdict: &str, detail: String) {
    let _ = writeln!(chan, "{}", json!({"part": part, "case": case, "verdict": verdict, "detail": detail}));
}

/// round trip of one value through the three routes
fn rt<T>(engine: &mut Engine, chan: &mut std::fs::File, ty: &str, v: T)
where
    T: IntoSteelVal + FromSteelVal + Clone + PartialEq + std::fmt::Debug,
{
    let case = format!("{ty}:{:?}", v);
    let sv = match v.clone().into_steelval() {
        Ok(sv) => sv,
        Err(e) => {
            obs(chan, "roundtrip", case, "into-error", format!("{e}"));
            return;
        }
    };
    match T::from_steelval(&sv) {
        Ok(back) if back == v => {}
        Ok(back) => {
            obs(chan, "roundtrip", case.clone(), "value-changed", format!("direct: got {:?} via {}", back, steel::verif::canon(&sv)));
            return;
        }
        Err(e) => {
            obs(chan, "roundtrip", case.clone(), "from-error", format!("direct: {e} via {}", steel::verif::canon(&sv)));
            return;
        }
    }
    engine.register_value("vh-x", sv.clone());
    match engine.extract::<T>("vh-x") {
        Ok(back) if back == v => {}
        Ok(back) => {
            obs(chan, "roundtrip", case.clone(), "value-changed", format!("register/extract: got {:?}", back));
            return;
        }
        Err(e) => {
            obs(chan, "roundtrip", case.clone(), "from-error", format!("register/extract: {e}"));
            return;
        }
    }
    let r = engine.run("(define vh-y ((lambda (v) v) vh-x))".to_string());
    if r.is_err() {
        obs(chan, "roundtrip", case, "script-error", format!("{:?}", r.err().map(|e| e.to_string())));
        return;
    }
    match engine.extract::<T>("vh-y") {
        Ok(back) if back == v => obs(chan, "roundtrip", case, "ok", String::new()),
        Ok(back) => obs(chan, "roundtrip", case, "value-changed", format!("through script: got {:?}", back)),
        Err(e) => obs(chan, "roundtrip", case, "from-error", format!("through script: {e}")),
    }
}

/// conversion of a script-made value to T: `expect` = Some(v) when v is representable in T
fn conv<T>(engine: &mut Engine, chan: &mut std::fs::File, ty: &str, expr: &str, expect: Option<T>)
where
    T: FromSteelVal + PartialEq + std::fmt::Debug,
{
    let case = format!("{ty} <- {expr}");
    let src = format!("(define vh-c {expr})");
    if let Err(e) = engine.run(src) {
        obs(chan, "convert", case, "script-error", e.to_string());
        return;
    }
    match (engine.extract::<T>("vh-c"), expect) {
        (Ok(got), Some(want)) if got == want => obs(chan, "convert", case, "ok", String::new()),
        (Ok(got), Some(want)) => obs(chan, "convert", case, "wrong-value", format!("got {:?}, want {:?}", got, want)),
        (Ok(got), None) => obs(chan, "convert", case, "accepted-out-of-range-or-mistyped", format!("got {:?}", got)),
        (Err(_), None) => obs(chan, "convert", case, "ok-rejected", String::new()),
        (Err(e), Some(want)) => obs(chan, "convert", case, "rejected-representable", format!("{e}; want {:?}", want)),
    }
}

fn call(engine: &mut Engine, chan: &mut std::fs::File, expr: &str, should_enter: Option<&str>) {
    let before = ENTERED.load(Ordering::SeqCst);
    LAST_ARGS.lock().unwrap().clear();
    let r = std::panic::catch_unwind(std::panic::AssertUnwindSafe(|| engine.run(expr.to_string())));
    let panics = take_panics();
    let entered = ENTERED.load(Ordering::SeqCst) - before;
    let last = LAST_ARGS.lock().unwrap().clone();
    let case = expr.to_string();
    if !panics.is_empty() {
        obs(chan, "call", case, "panic", format!("{} | {}", norm_loc(&panics[0].0), panics[0].1));
        return;
    }
    let ok = matches!(r, Ok(Ok(_)));
    match should_enter {
        Some(want) => {
            if ok && entered == 1 && last == want {
                obs(chan, "call", case, "ok", String::new());
            } else {
                obs(chan, "call", case, "valid-call-misdelivered", format!("ok={ok} entered={entered} received={last} want={want}"));
            }
        }
        None => {
            if entered > 0 {
                obs(chan, "call", case, "entered-with-undeclared-arguments", format!("received={last} result_ok={ok}"));
            } else if ok {
                obs(chan, "call", case, "returned-ok-without-entering", String::new());
            } else {
                obs(chan, "call", case, "ok-rejected", String::new());
            }
        }
    }
}

fn lend(engine: &mut Engine, chan: &mut std::fs::File, name: &str, stash: &str, later: &str) {
    // the object lives in a Box that is freed right after the lending call
    let mut obj = Box::new(HostObj { magic: MAGIC, value: 10 });
    let script = format!("(begin (host-get *lent*) {stash} 'stashed)");
    let r = engine.run_with_reference::<HostObj, HostObj>(&mut obj, "*lent*", &script);
    if let Err(e) = &r {
        obs(chan, "lend", name.to_string(), "lending-call-failed", e.to_string());
    }
    obj.magic = 0xDEAD_DEAD_DEAD_DEAD;
    drop(obj);
    // churn the allocator a little so that the freed box is likely to be reused
    let junk: Vec<Box<[u64; 2]>> = (0..64).map(|i| Box::new([i as u64, 0x4141_4141_4141_4141])).collect();
    let before = ENTERED.load(Ordering::SeqCst);
    LAST_ARGS.lock().unwrap().clear();
    let r2 = std::panic::catch_unwind(std::panic::AssertUnwindSafe(|| engine.run(later.to_string())));
    drop(junk);
    let panics = take_panics();
    let entered = ENTERED.load(Ordering::SeqCst) - before;
    let last = LAST_ARGS.lock().unwrap().clone();
    if !panics.is_empty() {
        obs(chan, "lend", name.to_string(), "panic", format!("{} | {}", norm_loc(&panics[0].0), panics[0].1));
    } else if entered > 0 {
        obs(chan, "lend", name.to_string(), "stashed-reference-reached-the-host-after-the-call", format!("received={last}"));
    } else if matches!(r2, Ok(Ok(_))) {
        obs(chan, "lend", name.to_string(), "later-use-returned-ok", String::new());
    } else {
        obs(chan, "lend", name.to_string(), "ok-rejected", String::new());
    }
}

fn body(engine: &mut Engine, chan: &mut std::fs::File, seed: u64, n: usize) {
    let mut r = Rng(seed | 1);
    engine.register_fn("h-add", h_add);
    engine.register_fn("h-u8", h_u8);
    engine.register_fn("h-i32", h_i32);
    engine.register_fn("h-u64", h_u64);
    engine.register_fn("h-usize", h_usize);
    engine.register_fn("h-i16", h_i16);
    engine.register_fn("h-str", h_str);
    engine.register_fn("h-f64", h_f64);
    engine.register_fn("h-bool", h_bool);
    engine.register_fn("h-vec", h_vec);
    engine.register_fn("h-opt", h_opt);
    engine.register_fn("h-none", h_none);
    engine.register_fn("host-get", HostObj::get);
    engine.register_fn("host-bump", HostObj::bump);
    engine.register_type::<HostCounter>("HostCounter?");
    engine.register_fn("counter-new", HostCounter::new);
    engine.register_fn("counter-add!", HostCounter::add);
    engine.register_fn("counter-add2!", HostCounter::add2);
    engine.register_fn("counter-get", HostCounter::get);
    engine.register_fn("counter-scale", HostCounter::scale);
    let _ = engine.run("(define hc (counter-new))".to_string());
    engine.register_value("*lent*", SteelVal::Void);
    engine.register_value("stash", SteelVal::Void);

    // ---- part 1: round trips
    macro_rules! ints {
        ($t:ty, $name:expr) => {{
            let mut vs: Vec<$t> = vec![0 as $t, 1 as $t, <$t>::MAX, <$t>::MIN, <$t>::MAX - 1, <$t>::MIN + 1, (<$t>::MAX / 2) as $t];
            for _ in 0..n {
                vs.push(r.next() as $t);
                vs.push((r.next() >> (r.next() % 64)) as $t);
            }
            for v in vs {
                // the value the *script* sees must be the mathematical value, whatever comes back to the host
                if let Ok(sv) = v.into_steelval() {
                    let c = steel::verif::canon(&sv);
                    if c != format!("i:{}", v) {
                        obs(chan, "roundtrip", format!("{}:{:?}", $name, v), "script-sees-a-different-value", c);
                        continue;
                    }
                }
                rt::<$t>(engine, chan, $name, v);
            }
        }};
    }
    ints!(i8, "i8");
    ints!(i16, "i16");
    ints!(i32, "i32");
    ints!(i64, "i64");
    ints!(isize, "isize");
    ints!(u8, "u8");
    ints!(u16, "u16");
    ints!(u32, "u32");
    ints!(u64, "u64");
    ints!(usize, "usize");
    for v in [0.0f64, -0.0, 1.5, -2.25, f64::MAX, f64::MIN_POSITIVE, 5e-324, f64::INFINITY, f64::NEG_INFINITY, 9007199254740993.0, 0.1] {
        rt::<f64>(engine, chan, "f64", v);
    }
    for _ in 0..n {
        let f = f64::from_bits(r.next());
        if !f.is_nan() {
            rt::<f64>(engine, chan, "f64", f);
        }
    }
    for v in [0.0f32, 1.5, -2.25, f32::MAX, f32::MIN_POSITIVE, 0.1f32] {
        rt::<f32>(engine, chan, "f32", v);
    }
    for v in ['a', '\0', ' ', '\n', 'λ', '\u{10FFFF}', '\u{D7FF}', '\u{E000}', '"', '\\'] {
        rt::<char>(engine, chan, "char", v);
    }
    for v in ["", "a", "hello world", "λx.名前\n\t\"q\"\\", "\0"] {
        rt::<String>(engine, chan, "String", v.to_string());
    }
    rt::<bool>(engine, chan, "bool", true);
    rt::<bool>(engine, chan, "bool", false);
    for v in [None, Some(0isize), Some(-5), Some(isize::MAX)] {
        rt::<Option<isize>>(engine, chan, "Option<isize>", v);
    }
    for v in [None, Some(String::new()), Some("x".to_string())] {
        rt::<Option<String>>(engine, chan, "Option<String>", v);
    }
    for v in [vec![], vec![1isize], vec![isize::MIN, 0, isize::MAX], (0..50).collect::<Vec<isize>>()] {
        rt::<Vec<isize>>(engine, chan, "Vec<isize>", v);
    }
    rt::<Vec<String>>(engine, chan, "Vec<String>", vec!["a".to_string(), String::new(), "λ".to_string()]);
    rt::<Vec<Vec<isize>>>(engine, chan, "Vec<Vec<isize>>", vec![vec![], vec![1, 2], vec![3]]);
    rt::<Vec<Option<isize>>>(engine, chan, "Vec<Option<isize>>", vec![Some(1), Some(2)]);
    rt::<(isize, String)>(engine, chan, "(isize,String)", (5, "five".to_string()));
    {
        let mut m = HashMap::new();
        m.insert("a".to_string(), 1isize);
        m.insert("".to_string(), -1);
        m.insert("λ".to_string(), isize::MAX);
        rt::<HashMap<String, isize>>(engine, chan, "HashMap<String,isize>", m);
        rt::<HashMap<String, isize>>(engine, chan, "HashMap<String,isize>", HashMap::new());
        let s: HashSet<isize> = [1, 2, 3, isize::MIN].into_iter().collect();
        rt::<HashSet<isize>>(engine, chan, "HashSet<isize>", s);
        let s: HashSet<String> = ["x".to_string(), String::new()].into_iter().collect();
        rt::<HashSet<String>>(engine, chan, "HashSet<String>", s);
    }

    // ---- part 2: conversions of script-made values: out of range / mistyped must be Err
    conv::<u8>(engine, chan, "u8", "255", Some(255));
    conv::<u8>(engine, chan, "u8", "256", None);
    conv::<u8>(engine, chan, "u8", "-1", None);
    conv::<u8>(engine, chan, "u8", "1.0", None);
    conv::<i8>(engine, chan, "i8", "-128", Some(-128));
    conv::<i8>(engine, chan, "i8", "128", None);
    conv::<i8>(engine, chan, "i8", "(expt 2 70)", None);
    conv::<i16>(engine, chan, "i16", "32767", Some(32767));
    conv::<i16>(engine, chan, "i16", "32768", None);
    conv::<i16>(engine, chan, "i16", "70000", None);
    conv::<i16>(engine, chan, "i16", "-32769", None);
    conv::<u16>(engine, chan, "u16", "65535", Some(65535));
    conv::<u16>(engine, chan, "u16", "65536", None);
    conv::<u16>(engine, chan, "u16", "-1", None);
    conv::<i32>(engine, chan, "i32", "2147483647", Some(2147483647));
    conv::<i32>(engine, chan, "i32", "2147483648", None);
    conv::<i32>(engine, chan, "i32", "-2147483649", None);
    conv::<i32>(engine, chan, "i32", "(expt 2 40)", None);
    conv::<u32>(engine, chan, "u32", "4294967295", Some(4294967295));
    conv::<u32>(engine, chan, "u32", "4294967296", None);
    conv::<u32>(engine, chan, "u32", "-1", None);
    conv::<u64>(engine, chan, "u64", "9223372036854775807", Some(9223372036854775807));
    conv::<u64>(engine, chan, "u64", "18446744073709551615", Some(u64::MAX));
    conv::<u64>(engine, chan, "u64", "18446744073709551616", None);
    conv::<u64>(engine, chan, "u64", "-1", None);
    conv::<usize>(engine, chan, "usize", "-1", None);
    conv::<usize>(engine, chan, "usize", "-9223372036854775808", None);
    conv::<usize>(engine, chan, "usize", "18446744073709551615", Some(usize::MAX));
    conv::<isize>(engine, chan, "isize", "9223372036854775808", None);
    conv::<isize>(engine, chan, "isize", "1/2", None);
    conv::<isize>(engine, chan, "isize", "1.5", None);
    conv::<isize>(engine, chan, "isize", "\"5\"", None);
    conv::<i64>(engine, chan, "i64", "9223372036854775808", None);
    conv::<i64>(engine, chan, "i64", "-9223372036854775808", Some(i64::MIN));
    conv::<f64>(engine, chan, "f64", "1", None);
    conv::<f64>(engine, chan, "f64", "\"1.0\"", None);
    conv::<f64>(engine, chan, "f64", "1.5", Some(1.5));
    conv::<char>(engine, chan, "char", "\"a\"", None);
    conv::<char>(engine, chan, "char", "97", None);
    conv::<char>(engine, chan, "char", "#\\a", Some('a'));
    // (a symbol converts to String by an explicit arm of FromSteelVal for String: pinned as designed)
    conv::<String>(engine, chan, "String", "#\\a", None);
    conv::<String>(engine, chan, "String", "5", None);
    conv::<bool>(engine, chan, "bool", "0", None);
    conv::<bool>(engine, chan, "bool", "'()", None);
    conv::<Vec<isize>>(engine, chan, "Vec<isize>", "(list 1 2 \"x\")", None);
    conv::<Vec<isize>>(engine, chan, "Vec<isize>", "(list 1 2.5)", None);
    conv::<Vec<isize>>(engine, chan, "Vec<isize>", "(list 1 (expt 2 70))", None);
    conv::<Vec<isize>>(engine, chan, "Vec<isize>", "5", None);
    conv::<Vec<u8>>(engine, chan, "Vec<u8>", "(list 1 256)", None);
    conv::<Option<isize>>(engine, chan, "Option<isize>", "\"x\"", None);
    conv::<(isize, String)>(engine, chan, "(isize,String)", "(list 1 2)", None);
    conv::<(isize, String)>(engine, chan, "(isize,String)", "(list 1 \"a\" 3)", None);
    conv::<HashMap<String, isize>>(engine, chan, "HashMap<String,isize>", "(hash \"a\" \"b\")", None);
    conv::<HashMap<String, isize>>(engine, chan, "HashMap<String,isize>", "(hash 1 2)", None);
    conv::<HashSet<isize>>(engine, chan, "HashSet<isize>", "(hashset 1 \"x\")", None);

    // ---- part 3: registered functions
    call(engine, chan, "(h-add 1 2)", Some("h_add(1,2)"));
    call(engine, chan, "(h-add -5 9223372036854775807)", Some("h_add(-5,9223372036854775807)"));
    call(engine, chan, "(apply h-add (list 3 4))", Some("h_add(3,4)"));
    call(engine, chan, "(car (map h-add (list 5) (list 6)))", Some("h_add(5,6)"));
    call(engine, chan, "(h-str \"ab\" #\\c)", Some("h_str(\"ab\",'c')"));
    call(engine, chan, "(h-vec (list 1 2 3))", Some("h_vec([1, 2, 3])"));
    call(engine, chan, "(h-none)", Some("h_none()"));
    call(engine, chan, "(h-u8 255)", Some("h_u8(255)"));
    call(engine, chan, "(h-bool #f)", Some("h_bool(false)"));
    call(engine, chan, "(h-f64 2.5)", Some("h_f64(2.5)"));
    call(engine, chan, "(counter-add! hc 2)", Some("HostCounter::add(2)"));
    call(engine, chan, "(counter-add2! hc 3 \"s\")", Some("HostCounter::add2(3,\"s\")"));
    call(engine, chan, "(counter-get hc)", Some("HostCounter::get()"));
    call(engine, chan, "(counter-scale hc 2 3)", Some("HostCounter::scale(2,3)"));
    call(engine, chan, "(apply counter-add! (list hc 4))", Some("HostCounter::add(4)"));
    for bad in [
        "(counter-add! hc)", "(counter-add! hc 1 2)", "(counter-add! hc 1 2 3)", "(counter-add!)", "(counter-add! 5 1)", "(counter-add! hc \"1\")",
        "(counter-add2! hc 1)", "(counter-add2! hc 1 \"s\" 3)", "(counter-add2! hc \"s\" 1)", "(apply counter-add! (list hc 1 2))",
        "(counter-get)", "(counter-get hc 1)", "(counter-get 7)", "(counter-scale hc 1)", "(counter-scale hc 1 2 3)", "(counter-scale hc 1 2.5)",
        "(counter-new 1)",
        "(h-add 1)", "(h-add)", "(h-add 1 2 3)", "(h-add 1 \"2\")", "(h-add 1.5 2)", "(h-add 1/2 2)", "(h-add (expt 2 70) 1)", "(h-add 'a 1)",
        "(apply h-add (list 1))", "(apply h-add (list 1 2 3))", "(map h-add (list 1))", "(h-none 1)",
        "(h-u8 256)", "(h-u8 -1)", "(h-u8 1.0)", "(h-u8 (expt 2 70))", "(h-i32 2147483648)", "(h-i32 (expt 2 40))", "(h-i32 -2147483649)",
        "(h-i16 70000)", "(h-i16 -32769)", "(h-u64 -1)", "(h-u64 (expt 2 64))", "(h-usize -1)", "(h-usize -9223372036854775808)",
        "(h-str \"a\" \"b\")", "(h-str \"a\")", "(h-str 1 #\\b)", "(h-f64 1)", "(h-f64 \"1\")", "(h-bool 0)", "(h-bool '())",
        "(h-vec (list 1 \"x\"))", "(h-vec 5)", "(h-vec (list 1 2.5))", "(h-opt \"x\")", "(host-get 5)", "(host-get (list))", "(host-get *lent*)",
    ] {
        call(engine, chan, bad, None);
    }

    // ---- part 4: lent references stashed by the script
    let stashes: Vec<(&str, &str, &str)> = vec![
        ("global", "(set! stash *lent*)", "(host-get stash)"),
        ("list", "(set! stash (list 1 *lent* 2))", "(host-get (car (cdr stash)))"),
        ("vector", "(set! stash (vector *lent*))", "(host-get (vector-ref stash 0))"),
        ("hash", "(set! stash (hash 'k *lent*))", "(host-get (hash-ref stash 'k))"),
        ("box", "(set! stash (box *lent*))", "(host-bump (unbox stash))"),
        ("closure", "(set! stash (let ((captured *lent*)) (lambda () (host-get captured))))", "(stash)"),
        ("closure-over-global-name", "(set! stash (lambda () (host-get *lent*)))", "(stash)"),
        ("struct-field", "(begin (struct vh-holder (x)) (set! stash (vh-holder *lent*)))", "(host-get (vh-holder-x stash))"),
        ("continuation", "(set! stash (call/cc (lambda (k) (let ((l *lent*)) (lambda () (host-get l))))))", "(stash)"),
        ("copy-before-end", "(set! stash (let ((copy *lent*)) (list copy copy)))", "(host-bump (car stash))"),
        ("thread", "(set! stash (let ((l *lent*)) (lambda () (thread-join! (spawn-native-thread (lambda () (host-get l)))))))", "(stash)"),
    ];
    for (name, stash, later) in stashes {
        lend(engine, chan, name, stash, later);
    }
    let _ = writeln!(chan, "{}", json!({"end": true, "entered_total": ENTERED.load(Ordering::SeqCst)}));
}

pub fn main(args: &[String]) -> i32 {
    let opts = parse_opts(args);
    let outp = opts.get("out").expect("--out");
    let seed: u64 = opts.get("seed").and_then(|s| s.parse().ok()).unwrap_or(1);
    let n: usize = opts.get("n").and_then(|s| s.parse().ok()).unwrap_or(50);
    install_panic_recorder();
    let mut engine = Engine::new();
    let _ = take_panics();
    let mut w = std::io::BufWriter::new(std::fs::File::create(outp).expect("create --out"));
    let oc = fork_run(600_000, 8192, 0, |chan, _| {
        body(&mut engine, chan, seed, n);
    });
    let ended = oc.lines.iter().any(|l| l.get("end").is_some());
    for l in &oc.lines {
        let _ = writeln!(w, "{}", l);
    }
    let _ = writeln!(w, "{}", json!({"status": oc.status, "ended": ended, "stderr_tail": oc.err_tail}));
    let _ = w.flush();
    0
}
