//! Host functions every harness engine exposes to scripts (observation only).

use serde_json::{json, Value};
use std::collections::BTreeMap;
use std::sync::Mutex;
use steel::steel_vm::engine::Engine;
use steel::steel_vm::register_fn::RegisterFn;

static TICKS: Mutex<BTreeMap<String, u64>> = Mutex::new(BTreeMap::new());

fn verif_tick(id: String) -> isize {
    let mut g = TICKS.lock().unwrap_or_else(|p| p.into_inner());
    let e = g.entry(id).or_insert(0);
    *e += 1;
    *e as isize
}

pub fn tick_count(id: &str) -> u64 {
    let g = TICKS.lock().unwrap_or_else(|p| p.into_inner());
    g.get(id).copied().unwrap_or(0)
}

pub fn ticks_json() -> Value {
    let g = TICKS.lock().unwrap_or_else(|p| p.into_inner());
    let m: serde_json::Map<String, Value> = g.iter().map(|(k, v)| (k.clone(), json!(v))).collect();
    Value::Object(m)
}

static EMITS: Mutex<Vec<String>> = Mutex::new(Vec::new());

/// (verif-emit v): record the canonical rendering of v (printer-independent observation channel for
/// code whose top-level values are not returned, e.g. module bodies and threads).
fn verif_emit(v: steel::SteelVal) -> steel::SteelVal {
    let s = steel::verif::canon(&v);
    let mut g = EMITS.lock().unwrap_or_else(|p| p.into_inner());
    if g.len() < 100_000 {
        g.push(s);
    }
    v
}

pub fn emit_count() -> usize {
    EMITS.try_lock().map(|g| g.len()).unwrap_or(0)
}

pub fn take_emits() -> Vec<String> {
    let mut g = EMITS.lock().unwrap_or_else(|p| p.into_inner());
    std::mem::take(&mut *g)
}

pub fn register(engine: &mut Engine) {
    engine.register_fn("verif-tick", verif_tick);
    engine.register_fn("verif-emit", verif_emit);
}
