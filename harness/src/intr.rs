//! `vharness intr` (C17): run a non-terminating / long-running program, request interruption from
//! another host thread after a seeded delay, and observe when `Engine::run` returns and whether the
//! engine is usable after `resume()`.

use crate::run::{fork_run, make_engine};
use crate::util::*;
use serde_json::{json, Value};
use std::io::{BufRead, Write};
use std::sync::atomic::{AtomicU64, Ordering};
use std::sync::Arc;

pub fn main(args: &[String]) -> i32 {
    let opts = parse_opts(args);
    let inp = opts.get("in").expect("--in");
    let outp = opts.get("out").expect("--out");
    install_panic_recorder();
    let mut engine = make_engine("new");
    let _ = take_panics();
    let reader = std::io::BufReader::new(std::fs::File::open(inp).expect("open --in"));
    let mut w = std::io::BufWriter::new(std::fs::File::create(outp).expect("create --out"));
    for line in reader.lines() {
        let line = match line {
            Ok(l) => l,
            Err(_) => break,
        };
        let case: Value = match serde_json::from_str(&line) {
            Ok(v) => v,
            Err(_) => continue,
        };
        let timeout = case["timeout_ms"].as_u64().unwrap_or(25_000);
        let delay = case["delay_ms"].as_u64().unwrap_or(50);
        let src = case["src"].as_str().unwrap_or("").to_string();
        let setup = case["setup"].as_str().unwrap_or("").to_string();
        let probe = case["probe"].as_str().unwrap_or("(+ 1 2)").to_string();
        let wait_tick = case["wait_tick"].as_str().unwrap_or("").to_string();
        let oc = fork_run(timeout, 8192, 0, |chan, _| {
            if !setup.is_empty() {
                let _ = engine.run(setup.clone());
            }
            let controller = engine.get_thread_state_controller();
            let sent_at = Arc::new(AtomicU64::new(0));
            let sent2 = sent_at.clone();
            let c2 = controller.clone();
            let t0 = now_ms();
            let wait_tick = wait_tick.clone();
            let h = std::thread::spawn(move || {
                // with "wait_tick" the delay counts from the moment the program itself reports that it runs (so a slow
                // compilation on a cold machine cannot turn the case into "request before the VM loop started")
                if !wait_tick.is_empty() {
                    let t1 = now_ms();
                    while crate::hostfns::tick_count(&wait_tick) == 0 && now_ms() - t1 < 20_000 {
                        std::thread::sleep(std::time::Duration::from_millis(1));
                    }
                }
                std::thread::sleep(std::time::Duration::from_millis(delay));
                sent2.store((now_ms() - t0) as u64, Ordering::SeqCst);
                c2.interrupt();
            });
            let _ = writeln!(chan, "{}", json!({"started": true}));
            let r = std::panic::catch_unwind(std::panic::AssertUnwindSafe(|| engine.run(src.clone())));
            let returned = (now_ms() - t0) as u64;
            let _ = h.join();
            let panics = take_panics();
            let mut rec = json!({"returned_ms": returned, "interrupt_sent_ms": sent_at.load(Ordering::SeqCst)});
            match r {
                Ok(Ok(_)) => rec["result"] = json!("ok"),
                Ok(Err(e)) => {
                    rec["result"] = json!("err");
                    rec["err"] = json!(format!("{}", e).chars().take(200).collect::<String>());
                }
                Err(_) => rec["result"] = json!("panic"),
            }
            if !panics.is_empty() {
                rec["panic"] = json!([norm_loc(&panics[0].0), panics[0].1.chars().take(200).collect::<String>()]);
            }
            // the engine must be usable after resume()
            controller.resume();
            let p = std::panic::catch_unwind(std::panic::AssertUnwindSafe(|| engine.run(probe.clone())));
            match p {
                Ok(Ok(vals)) => {
                    rec["probe"] = json!(vals.iter().map(steel::verif::canon).collect::<Vec<_>>());
                }
                Ok(Err(e)) => rec["probe_err"] = json!(format!("{}", e).chars().take(200).collect::<String>()),
                Err(_) => rec["probe_err"] = json!("panic"),
            }
            let _ = take_panics();
            let _ = writeln!(chan, "{}", rec);
        });
        let mut rec = json!({"id": case["id"], "status": oc.status, "wall_ms": oc.wall_ms as u64});
        for l in oc.lines {
            if l.get("returned_ms").is_some() {
                rec["obs"] = l;
            } else if l.get("started").is_some() {
                rec["started"] = json!(true);
            }
        }
        if oc.status != "ok" {
            rec["stderr_tail"] = json!(oc.err_tail);
        }
        let _ = writeln!(w, "{}", rec);
    }
    let _ = w.flush();
    0
}
