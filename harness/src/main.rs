//! vharness — embeds the real steel engine (built from /repo's working tree, hooks on) and runs
//! generated workloads under observation.  One binary, several sub-commands; every sub-command reads
//! a JSONL case file and writes a JSONL result file, so the Python side owns generation and oracles.

mod host;
mod hostfns;
mod intr;
mod parse;
mod run;
mod util;

fn main() {
    let args: Vec<String> = std::env::args().collect();
    if args.len() < 2 {
        eprintln!("usage: vharness <run|...> [options]");
        std::process::exit(2);
    }
    let rest = &args[2..];
    let code = match args[1].as_str() {
        "run" => run::main(rest),
        "parse" => parse::main(rest),
        "globals" => run::globals_main(rest),
        "intr" => intr::main(rest),
        "host" => host::main(rest),
        "ast" => {
            // ad-hoc: print the fully expanded / optimised AST of the source text given as argument
            let mut e = run::make_engine("full");
            match e.emit_fully_expanded_ast_to_string(rest.get(0).map(|s| s.as_str()).unwrap_or(""), None) {
                Ok(s) => println!("{}", s),
                Err(err) => println!("ERROR {}", err),
            }
            0
        }
        "dis" => {
            // ad-hoc: print the bytecode the compiler emits for the source text given as argument
            let mut e = run::make_engine("full");
            let prog = e.emit_raw_program_no_path(rest.get(0).cloned().unwrap_or_default()).unwrap();
            e.debug_print_build("dis".to_string(), prog).unwrap();
            0
        }
        other => {
            eprintln!("unknown sub-command {other}");
            2
        }
    };
    std::process::exit(code);
}
