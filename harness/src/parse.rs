//! `vharness parse`: drive steel-parser directly.  For every text: parse (catching panics), check
//! every reported span, print the tree, re-parse the print, and compare the two trees with spans
//! erased.  Runs in-process (no engine); a batch is executed in a forked child so that an abort or
//! stack overflow of the parser is an observation.

use crate::run::fork_run;
use crate::util::*;
use serde_json::{json, Value};
use std::io::{BufRead, Write};
use steel_parser::parser::{ParseError, Parser};

fn err_span(e: &ParseError) -> (u32, u32) {
    let s = match e {
        ParseError::MismatchedParen(_, s, _)
        | ParseError::UnexpectedEOF(s, _)
        | ParseError::UnexpectedChar(_, s, _)
        | ParseError::SyntaxError(_, s, _)
        | ParseError::ArityMismatch(_, s, _) => s,
    };
    (s.start, s.end)
}

/// Erase span records (`span: a..b`, `location: a..b`) and syntax-object ids from a Debug
/// rendering of the tree; collect the (start, end) pairs.
fn strip_spans(dbg: &str, spans: &mut Vec<(u64, u64)>) -> String {
    let b = dbg.as_bytes();
    let mut out: Vec<u8> = Vec::with_capacity(b.len());
    let mut i = 0;
    let keys: [&[u8]; 3] = [b"span: ", b"location: ", b"syntax_object_id: "];
    'outer: while i < b.len() {
        for (kn, key) in keys.iter().enumerate() {
            if b[i..].starts_with(key) {
                let mut j = i + key.len();
                let s0 = j;
                while j < b.len() && b[j].is_ascii_digit() {
                    j += 1;
                }
                if j > s0 {
                    if kn == 2 {
                        out.extend_from_slice(key);
                        out.push(b'_');
                        i = j;
                        continue 'outer;
                    }
                    if b[j..].starts_with(b"..") {
                        let mut k = j + 2;
                        let e0 = k;
                        while k < b.len() && b[k].is_ascii_digit() {
                            k += 1;
                        }
                        if k > e0 {
                            let a: u64 = dbg[s0..j].parse().unwrap_or(u64::MAX);
                            let e: u64 = dbg[e0..k].parse().unwrap_or(u64::MAX);
                            spans.push((a, e));
                            out.extend_from_slice(key);
                            out.push(b'_');
                            i = k;
                            continue 'outer;
                        }
                    }
                }
            }
        }
        out.push(b[i]);
        i += 1;
    }
    String::from_utf8_lossy(&out).to_string()
}

fn check_text(text: &str) -> Value {
    let mut rec = json!({});
    let r = std::panic::catch_unwind(|| Parser::parse(text));
    let panics = take_panics();
    if !panics.is_empty() {
        rec["panic"] = json!([norm_loc(&panics[0].0), panics[0].1.chars().take(200).collect::<String>()]);
        return rec;
    }
    let len = text.len() as u64;
    let bad_span = |a: u64, b: u64| -> bool {
        a > b || b > len || !text.is_char_boundary(a as usize) || !text.is_char_boundary(b as usize)
    };
    match r {
        Err(_) => {
            rec["panic"] = json!(["?", "unwound without hook"]);
        }
        Ok(Err(e)) => {
            rec["ok"] = json!(false);
            let (a, b) = err_span(&e);
            rec["err"] = json!(format!("{}", e).chars().take(120).collect::<String>());
            rec["span"] = json!([a, b]);
            if bad_span(a as u64, b as u64) {
                rec["bad_span"] = json!([a, b, len]);
            }
        }
        Ok(Ok(exprs)) => {
            rec["ok"] = json!(true);
            rec["n"] = json!(exprs.len());
            let mut spans = Vec::new();
            let d1 = strip_spans(&format!("{:?}", exprs), &mut spans);
            for (a, b) in &spans {
                // synthesized nodes carry the default span 0..0, which is inside every text
                if bad_span(*a, *b) {
                    rec["bad_span"] = json!([a, b, len]);
                    break;
                }
            }
            rec["nspans"] = json!(spans.len());
            // print -> parse -> compare
            let printed: Vec<String> = exprs.iter().map(|e| e.to_string()).collect();
            let s1 = printed.join("\n");
            let r2 = std::panic::catch_unwind(|| Parser::parse(&s1));
            let panics = take_panics();
            if !panics.is_empty() {
                rec["reparse_panic"] = json!([norm_loc(&panics[0].0), panics[0].1.chars().take(200).collect::<String>()]);
                rec["printed"] = json!(s1.chars().take(400).collect::<String>());
                return rec;
            }
            match r2 {
                Ok(Ok(exprs2)) => {
                    let mut sp2 = Vec::new();
                    let d2 = strip_spans(&format!("{:?}", exprs2), &mut sp2);
                    if d1 != d2 {
                        rec["roundtrip"] = json!("tree-differs");
                        rec["printed"] = json!(s1.chars().take(400).collect::<String>());
                        // first point of difference, for the signature
                        let k = d1.bytes().zip(d2.bytes()).take_while(|(a, b)| a == b).count();
                        let mut lo = k.saturating_sub(60);
                        while !d1.is_char_boundary(lo) {
                            lo -= 1;
                        }
                        rec["d1"] = json!(d1[lo..].chars().take(160).collect::<String>());
                        let mut lo2 = k.saturating_sub(60).min(d2.len());
                        while !d2.is_char_boundary(lo2) {
                            lo2 -= 1;
                        }
                        rec["d2"] = json!(d2[lo2..].chars().take(160).collect::<String>());
                    } else {
                        rec["roundtrip"] = json!("same");
                    }
                }
                Ok(Err(e)) => {
                    rec["roundtrip"] = json!("reparse-error");
                    rec["printed"] = json!(s1.chars().take(400).collect::<String>());
                    rec["reparse_err"] = json!(format!("{}", e).chars().take(120).collect::<String>());
                }
                Err(_) => {
                    rec["reparse_panic"] = json!(["?", "unwound"]);
                }
            }
        }
    }
    rec
}

pub fn main(args: &[String]) -> i32 {
    let opts = parse_opts(args);
    let inp = opts.get("in").expect("--in");
    let outp = opts.get("out").expect("--out");
    install_panic_recorder();
    let reader = std::io::BufReader::new(std::fs::File::open(inp).expect("open --in"));
    let mut w = std::io::BufWriter::new(std::fs::File::create(outp).expect("create --out"));
    // cases: {"id":..., "texts":[...]} ; texts may be given as {"hex": "..."} for non-UTF-8 bytes
    for line in reader.lines() {
        let line = match line {
            Ok(l) => l,
            Err(_) => break,
        };
        let case: Value = match serde_json::from_str(&line) {
            Ok(v) => v,
            Err(_) => continue,
        };
        let timeout = case["timeout_ms"].as_u64().unwrap_or(60_000);
        let stack_kb = case["stack_kb"].as_u64().unwrap_or(0);
        let texts: Vec<Value> = case["texts"].as_array().cloned().unwrap_or_default();
        let oc = fork_run(timeout, 4096, stack_kb, |chan, _| {
            for (i, t) in texts.iter().enumerate() {
                let owned: String;
                let text: &str = if let Some(s) = t.as_str() {
                    s
                } else if let Some(h) = t["hex"].as_str() {
                    let bytes: Vec<u8> = (0..h.len() / 2)
                        .filter_map(|k| u8::from_str_radix(&h[2 * k..2 * k + 2], 16).ok())
                        .collect();
                    // the engine's entry points take &str: invalid UTF-8 cannot be submitted;
                    // submit the lossy decoding, which is what an embedder reading bytes would do
                    owned = String::from_utf8_lossy(&bytes).to_string();
                    &owned
                } else {
                    ""
                };
                let _ = writeln!(chan, "{}", json!({"start": i}));
                let mut rec = check_text(text);
                rec["i"] = json!(i);
                let _ = writeln!(chan, "{}", rec);
            }
            let _ = writeln!(chan, "{}", json!({"end": true}));
        });
        let mut recs = Vec::new();
        let mut started: i64 = -1;
        let mut ended = false;
        for l in oc.lines {
            if l.get("end").is_some() {
                ended = true;
            } else if let Some(s) = l.get("start") {
                started = s.as_i64().unwrap_or(-1);
            } else {
                recs.push(l);
            }
        }
        let mut rec = json!({"id": case["id"], "status": oc.status, "recs": recs, "wall_ms": oc.wall_ms as u64});
        if !ended {
            rec["died_at"] = json!(started);
            rec["stderr_tail"] = json!(oc.err_tail);
        }
        let _ = writeln!(w, "{}", rec);
    }
    let _ = w.flush();
    0
}
