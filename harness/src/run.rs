//! `vharness run`: run cases (each a list of top-level evaluation units) on a pristine engine.
//!
//! A template engine is built once; every case runs in a forked child of the harness, so each case
//! sees a fresh engine at the cost of a fork, and a crash, abort, stack overflow or hang of the
//! engine is an *observation* (exit status / signal / timeout) instead of a harness failure.

use crate::util::*;
use serde_json::{json, Value};
use std::io::{BufRead, Write};
use std::os::unix::io::FromRawFd;
use steel::steel_vm::engine::Engine;

pub fn make_engine(kind: &str) -> Engine {
    let mut e = match kind {
        "sandboxed" => Engine::new_sandboxed(),
        _ => Engine::new(),
    };
    crate::hostfns::register(&mut e);
    e
}

fn memfd(name: &str) -> i32 {
    let c = std::ffi::CString::new(name).unwrap();
    let fd = unsafe { libc::memfd_create(c.as_ptr(), 0) };
    assert!(fd >= 0, "memfd_create failed");
    fd
}

fn read_fd_all(fd: i32) -> Vec<u8> {
    let mut buf = Vec::new();
    unsafe {
        let size = libc::lseek(fd, 0, libc::SEEK_END);
        if size > 0 {
            buf.resize(size as usize, 0);
            let mut off = 0usize;
            while off < buf.len() {
                let n = libc::pread(
                    fd,
                    buf[off..].as_mut_ptr() as *mut libc::c_void,
                    buf.len() - off,
                    off as i64,
                );
                if n <= 0 {
                    break;
                }
                off += n as usize;
            }
            buf.truncate(off);
        }
    }
    buf
}

fn fd_len(fd: i32) -> usize {
    let _ = std::io::stdout().flush();
    unsafe { libc::lseek(fd, 0, libc::SEEK_END).max(0) as usize }
}

pub fn err_kind(e: &steel::SteelErr) -> String {
    format!("{:?}", e.kind())
}

/// Runs inside the forked child. Writes one JSON line per unit to `chan`, then an end record.
fn child_body(engine: &mut Engine, case: &Value, chan: &mut std::fs::File, out_fd: i32) {
    let empty = vec![];
    let units = case["units"].as_array().unwrap_or(&empty);
    let stop_on_error = case["stop_on_error"].as_bool().unwrap_or(false);
    // the hook counters are process-wide and the template engine's boot already moved them:
    // a case reports what happened during the case
    let counters_at_start: std::collections::HashMap<&'static str, u64> =
        steel::verif::counters().into_iter().collect();
    // H-cov: the case reports the opcodes its own units drove, not the template engine's boot
    steel::verif::reset_opcodes_seen();
    if let Some(n) = case["gc_every"].as_u64() {
        steel::verif::set_gc_every(n, case["gc_jitter"].as_u64().unwrap_or(0));
    }
    if let Some(p) = case["gc_poison"].as_bool() {
        steel::verif::set_gc_poison(p);
    }
    if let Some(us) = case["sync_delay_us"].as_u64() {
        // H-sync: seeded delays at the suspension points of the stop-the-world handshake
        steel::verif::set_sync_delay(us, case["sync_seed"].as_u64().unwrap_or(1));
    }
    if let Some(stall_ms) = case["stall_ms"].as_u64() {
        // H-prog watchdog: the run is *stalled* when none of the progress counters moved for
        // stall_ms (decided on the counters, not on the wall clock of the whole run); the
        // child reports the counters and exits with status 97.
        std::thread::spawn(move || {
            use std::sync::atomic::Ordering::Relaxed;
            let snap = || {
                [
                    steel::verif::INSTRUCTIONS.load(Relaxed),
                    steel::verif::SAFEPOINT_ENTRIES.load(Relaxed),
                    steel::verif::STOP_THE_WORLD.load(Relaxed),
                    steel::verif::STOP_THE_WORLD_FINISHED.load(Relaxed),
                    steel::verif::FULL_COLLECTIONS.load(Relaxed),
                    steel::verif::FORCED_COLLECTIONS.load(Relaxed),
                ]
            };
            let mut last = snap();
            let mut since = std::time::Instant::now();
            loop {
                std::thread::sleep(std::time::Duration::from_millis(100));
                let now = snap();
                if now != last {
                    last = now;
                    since = std::time::Instant::now();
                } else if since.elapsed().as_millis() as u64 >= stall_ms {
                    let nthreads = std::fs::read_dir("/proc/self/task").map(|d| d.count()).unwrap_or(0);
                    eprintln!(
                        "VHSTALL {}",
                        json!({"instructions": now[0], "safepoint_entries": now[1], "stop_the_world": now[2],
                               "stop_the_world_finished": now[3], "stoppers_active": steel::verif::STOPPERS_ACTIVE.load(Relaxed),
                               "os_threads": nthreads, "emits": crate::hostfns::emit_count()})
                    );
                    unsafe { libc::_exit(97) };
                }
            }
        });
    }
    let as_module = case["as_module"].as_bool().unwrap_or(false);
    let mod_dir = format!(
        "{}/vhmod-{}",
        std::env::var("VH_MODULE_DIR").unwrap_or_else(|_| "/dev/shm".to_string()),
        std::process::id()
    );
    if as_module {
        let _ = std::fs::create_dir_all(&mod_dir);
    }
    for (i, unit) in units.iter().enumerate() {
        let mut src = unit.as_str().unwrap_or("").to_string();
        // a unit may also be {"module": text}: the text is saved to a file and required, i.e. compiled
        // and run the way the `steel` command runs a script
        let module_text = if as_module {
            Some(src.clone())
        } else {
            unit.get("module").and_then(|m| m.as_str()).map(|m| m.to_string())
        };
        if let Some(text) = module_text {
            let _ = std::fs::create_dir_all(&mod_dir);
            let path = format!("{}/u{}.scm", mod_dir, i);
            let _ = std::fs::write(&path, text);
            src = format!("(require \"{}\")", path);
        }
        let start = fd_len(out_fd);
        let res = std::panic::catch_unwind(std::panic::AssertUnwindSafe(|| engine.run(src)));
        let end = fd_len(out_fd);
        let panics = take_panics();
        let mut rec = json!({"u": i, "o0": start, "o1": end});
        let rr = steel::verif::RECYCLER_RUNS.load(std::sync::atomic::Ordering::Relaxed);
        if rr > 0 {
            rec["rr"] = json!(rr);
        }
        let emits = crate::hostfns::take_emits();
        if !emits.is_empty() {
            rec["emits"] = json!(emits);
        }
        let mut failed = false;
        match res {
            Ok(Ok(vals)) if case["no_vals"].as_bool().unwrap_or(false) => {
                // values returned to the host are not GC roots: under forced collections they may
                // legitimately be stale, so they are not inspected
                drop(vals);
                rec["ok"] = json!(true);
            }
            Ok(Ok(vals)) => {
                rec["ok"] = json!(true);
                rec["vals"] = Value::Array(
                    vals.iter()
                        .map(|v| Value::String(steel::verif::canon(v)))
                        .collect(),
                );
            }
            Ok(Err(e)) => {
                failed = true;
                rec["ok"] = json!(false);
                rec["kind"] = json!(err_kind(&e));
                let mut msg = format!("{}", e);
                msg.truncate(400);
                rec["err"] = json!(msg);
            }
            Err(_) => {
                failed = true;
                rec["ok"] = json!(false);
                rec["kind"] = json!("PANIC");
            }
        }
        if !panics.is_empty() {
            rec["panics"] = Value::Array(
                panics
                    .iter()
                    .map(|(l, m)| {
                        let mut m = m.clone();
                        m.truncate(300);
                        json!([norm_loc(l), m])
                    })
                    .collect(),
            );
        }
        let _ = writeln!(chan, "{}", rec);
        if failed && stop_on_error {
            break;
        }
    }
    let _ = std::fs::remove_dir_all(&mod_dir);
    let counters: serde_json::Map<String, Value> = steel::verif::counters()
        .into_iter()
        .map(|(k, v)| {
            if k.starts_with("GC_LIVE") || k == "STOPPERS_ACTIVE" {
                (k, v) // gauges
            } else {
                (k, v.wrapping_sub(counters_at_start.get(k).copied().unwrap_or(0)))
            }
        })
        .filter(|(_, v)| *v != 0)
        .map(|(k, v)| (k.to_string(), json!(v)))
        .collect();
    let maxrss_kb = unsafe {
        let mut ru: libc::rusage = std::mem::zeroed();
        libc::getrusage(libc::RUSAGE_SELF, &mut ru);
        ru.ru_maxrss as u64
    };
    let mut endrec = json!({"end": true, "counters": counters, "ticks": crate::hostfns::ticks_json(), "maxrss_kb": maxrss_kb});
    if case["events"].as_bool().unwrap_or(false) {
        let evs: Vec<Value> = steel::verif::drain_events()
            .into_iter()
            .map(|e| json!([e.clock, e.thread, e.kind, e.a, e.b, e.note]))
            .collect();
        endrec["events"] = Value::Array(evs);
    } else {
        // violation-class events are always reported
        let evs: Vec<Value> = steel::verif::drain_events()
            .into_iter()
            .filter(|e| e.kind.starts_with('!'))
            .take(50)
            .map(|e| json!([e.clock, e.thread, e.kind, e.a, e.b, e.note]))
            .collect();
        if !evs.is_empty() {
            endrec["events"] = Value::Array(evs);
        }
    }
    endrec["opc"] = json!([opcode_bits(0), opcode_bits(1)]);
    let _ = writeln!(chan, "{}", endrec);
    let _ = chan.flush();
}

/// One '0'/'1' per opcode (numbering order): seen by the interpreter (tier 0) / translated by the native code generator (tier 1).
fn opcode_bits(tier: usize) -> String {
    let seen: std::collections::HashSet<String> = steel::verif::opcodes_seen(tier).into_iter().collect();
    steel::verif::all_opcodes()
        .iter()
        .map(|n| if seen.contains(n) { '1' } else { '0' })
        .collect()
}

fn or_bits(acc: &mut Vec<u8>, bits: &str) {
    let b = bits.as_bytes();
    if acc.len() < b.len() {
        acc.resize(b.len(), b'0');
    }
    for (i, c) in b.iter().enumerate() {
        if *c == b'1' {
            acc[i] = b'1';
        }
    }
}

pub struct ChildOutcome {
    pub status: String,
    pub lines: Vec<Value>,
    pub out: Vec<u8>,
    pub err_tail: String,
    pub wall_ms: u128,
}

/// Fork, run `f` in the child with stdout/stderr captured, collect JSON lines from the channel.
pub fn fork_run<F: FnOnce(&mut std::fs::File, i32)>(
    timeout_ms: u64,
    mem_mb: u64,
    stack_kb: u64,
    f: F,
) -> ChildOutcome {
    let out_fd = memfd("vh-out");
    let err_fd = memfd("vh-err");
    let mut fds = [0i32; 2];
    assert!(unsafe { libc::pipe(fds.as_mut_ptr()) } == 0);
    let t0 = now_ms();
    let _ = std::io::stdout().flush();
    let pid = unsafe { libc::fork() };
    assert!(pid >= 0, "fork failed");
    if pid == 0 {
        unsafe {
            libc::close(fds[0]);
            libc::dup2(out_fd, 1);
            libc::dup2(err_fd, 2);
            let devnull = std::ffi::CString::new("/dev/null").unwrap();
            let nfd = libc::open(devnull.as_ptr(), libc::O_RDONLY);
            if nfd >= 0 {
                libc::dup2(nfd, 0);
            }
            if mem_mb > 0 {
                let lim = libc::rlimit {
                    rlim_cur: mem_mb * 1024 * 1024,
                    rlim_max: mem_mb * 1024 * 1024,
                };
                libc::setrlimit(libc::RLIMIT_AS, &lim);
            }
            if stack_kb > 0 {
                let lim = libc::rlimit {
                    rlim_cur: stack_kb * 1024,
                    rlim_max: stack_kb * 1024,
                };
                libc::setrlimit(libc::RLIMIT_STACK, &lim);
            }
            let core = libc::rlimit {
                rlim_cur: 0,
                rlim_max: 0,
            };
            libc::setrlimit(libc::RLIMIT_CORE, &core);
        }
        let mut chan = unsafe { std::fs::File::from_raw_fd(fds[1]) };
        f(&mut chan, out_fd);
        let _ = std::io::stdout().flush();
        unsafe { libc::_exit(0) };
    }
    unsafe { libc::close(fds[1]) };
    // read the channel with a deadline
    let mut data: Vec<u8> = Vec::new();
    let mut timed_out = false;
    let deadline = t0 + timeout_ms as u128;
    loop {
        let now = now_ms();
        if now >= deadline {
            timed_out = true;
            break;
        }
        let mut pfd = libc::pollfd {
            fd: fds[0],
            events: libc::POLLIN,
            revents: 0,
        };
        let wait = ((deadline - now) as i32).min(1000);
        let r = unsafe { libc::poll(&mut pfd, 1, wait) };
        if r > 0 {
            let mut buf = [0u8; 65536];
            let n = unsafe { libc::read(fds[0], buf.as_mut_ptr() as *mut libc::c_void, buf.len()) };
            if n <= 0 {
                break; // EOF: child closed the channel (exited)
            }
            data.extend_from_slice(&buf[..n as usize]);
        }
    }
    let mut status: i32 = 0;
    if timed_out {
        unsafe {
            libc::kill(pid, libc::SIGKILL);
        }
    }
    unsafe {
        libc::waitpid(pid, &mut status, 0);
        libc::close(fds[0]);
    }
    let st = if timed_out {
        "timeout".to_string()
    } else if libc::WIFSIGNALED(status) {
        format!("signal:{}", libc::WTERMSIG(status))
    } else if libc::WIFEXITED(status) && libc::WEXITSTATUS(status) == 0 {
        "ok".to_string()
    } else {
        format!("exit:{}", libc::WEXITSTATUS(status))
    };
    let out = read_fd_all(out_fd);
    let err = read_fd_all(err_fd);
    unsafe {
        libc::close(out_fd);
        libc::close(err_fd);
    }
    let err_s = String::from_utf8_lossy(&err);
    let tail_start = err_s.len().saturating_sub(600);
    let mut ts = tail_start;
    while !err_s.is_char_boundary(ts) {
        ts += 1;
    }
    let lines = data
        .split(|b| *b == b'\n')
        .filter(|l| !l.is_empty())
        .filter_map(|l| serde_json::from_slice::<Value>(l).ok())
        .collect();
    ChildOutcome {
        status: st,
        lines,
        out,
        err_tail: err_s[ts..].to_string(),
        wall_ms: now_ms() - t0,
    }
}

pub fn main(args: &[String]) -> i32 {
    let opts = parse_opts(args);
    let inp = opts.get("in").expect("--in");
    let outp = opts.get("out").expect("--out");
    let kind = opts.get("engine").map(|s| s.as_str()).unwrap_or("new");
    let default_timeout: u64 = opts
        .get("timeout-ms")
        .and_then(|s| s.parse().ok())
        .unwrap_or(20_000);
    let mem_mb: u64 = opts.get("mem-mb").and_then(|s| s.parse().ok()).unwrap_or(6144);
    install_panic_recorder();
    let mut engine = make_engine(kind);
    let _ = take_panics();
    let nthreads = std::fs::read_dir("/proc/self/task").map(|d| d.count()).unwrap_or(0);
    let reader = std::io::BufReader::new(std::fs::File::open(inp).expect("open --in"));
    let mut w = std::io::BufWriter::new(std::fs::File::create(outp).expect("create --out"));
    let _ = writeln!(w, "{}", json!({"harness": "run", "template_threads": nthreads}));
    let mut opc_interp: Vec<u8> = Vec::new();
    let mut opc_jit: Vec<u8> = Vec::new();
    for line in reader.lines() {
        let line = match line {
            Ok(l) => l,
            Err(_) => break,
        };
        if line.trim().is_empty() {
            continue;
        }
        let case: Value = match serde_json::from_str(&line) {
            Ok(v) => v,
            Err(e) => {
                let _ = writeln!(w, "{}", json!({"harness_error": format!("bad case json: {e}")}));
                continue;
            }
        };
        let timeout = case["timeout_ms"].as_u64().unwrap_or(default_timeout);
        let stack_kb = case["stack_kb"].as_u64().unwrap_or(0);
        let mem = case["mem_mb"].as_u64().unwrap_or(mem_mb);
        let oc = fork_run(timeout, mem, stack_kb, |chan, out_fd| {
            child_body(&mut engine, &case, chan, out_fd);
        });
        let mut units: Vec<Value> = Vec::new();
        let mut endrec = Value::Null;
        for l in oc.lines {
            if l.get("end").is_some() {
                endrec = l;
            } else {
                units.push(l);
            }
        }
        for u in units.iter_mut() {
            let o0 = u["o0"].as_u64().unwrap_or(0) as usize;
            let o1 = (u["o1"].as_u64().unwrap_or(0) as usize).min(oc.out.len());
            let s = if o0 <= o1 {
                String::from_utf8_lossy(&oc.out[o0..o1]).to_string()
            } else {
                String::new()
            };
            u["out"] = json!(s);
            u.as_object_mut().unwrap().remove("o0");
            u.as_object_mut().unwrap().remove("o1");
        }
        let last_off = units.len();
        let mut rec = json!({
            "id": case["id"],
            "status": oc.status,
            "units": units,
            "wall_ms": oc.wall_ms as u64,
        });
        if oc.status != "ok" {
            // output produced by the unit that was running when the child died
            rec["died_in_unit"] = json!(last_off);
            rec["stderr_tail"] = json!(oc.err_tail);
            let all = String::from_utf8_lossy(&oc.out).to_string();
            let mut t = all;
            if t.len() > 2000 {
                let mut s = t.len() - 2000;
                while !t.is_char_boundary(s) {
                    s += 1;
                }
                t = t[s..].to_string();
            }
            rec["out_tail"] = json!(t);
        }
        if !endrec.is_null() {
            if let Some(a) = endrec["opc"].as_array() {
                or_bits(&mut opc_interp, a[0].as_str().unwrap_or(""));
                or_bits(&mut opc_jit, a[1].as_str().unwrap_or(""));
            }
            rec["counters"] = endrec["counters"].clone();
            rec["ticks"] = endrec["ticks"].clone();
            rec["maxrss_kb"] = endrec["maxrss_kb"].clone();
            if endrec.get("events").is_some() {
                rec["events"] = endrec["events"].clone();
            }
        }
        let _ = writeln!(w, "{}", rec);
    }
    let _ = writeln!(
        w,
        "{}",
        json!({"harness": "opcov", "names": steel::verif::all_opcodes(),
               "interpreted": String::from_utf8_lossy(&opc_interp), "native": String::from_utf8_lossy(&opc_jit)})
    );
    let _ = w.flush();
    0
}

/// `vharness globals`: list every global of a fresh engine that is bound to a procedure, with the
/// kind of procedure, one JSON object per line.
pub fn globals_main(args: &[String]) -> i32 {
    let opts = parse_opts(args);
    let outp = opts.get("out").expect("--out");
    let kind = opts.get("engine").map(|s| s.as_str()).unwrap_or("new");
    let engine = make_engine(kind);
    let mut w = std::io::BufWriter::new(std::fs::File::create(outp).expect("create --out"));
    let names: Vec<String> = engine.globals().iter().map(|x| x.resolve().to_string()).collect();
    for n in names {
        if let Ok(v) = engine.extract_value(&n) {
            let k = match &v {
                steel::SteelVal::FuncV(_) => "func",
                steel::SteelVal::MutFunc(_) => "mutfunc",
                steel::SteelVal::BuiltIn(_) => "builtin",
                steel::SteelVal::BoxedFunction(_) => "boxed",
                steel::SteelVal::Closure(_) => "closure",
                steel::SteelVal::FutureFunc(_) => "future",
                _ => continue,
            };
            let _ = writeln!(w, "{}", json!({"name": n, "kind": k}));
        }
    }
    let _ = w.flush();
    0
}
