use std::collections::HashMap;

/// `--key value` style options.
pub fn parse_opts(args: &[String]) -> HashMap<String, String> {
    let mut m = HashMap::new();
    let mut i = 0;
    while i < args.len() {
        if let Some(k) = args[i].strip_prefix("--") {
            if i + 1 < args.len() && !args[i + 1].starts_with("--") {
                m.insert(k.to_string(), args[i + 1].clone());
                i += 2;
            } else {
                m.insert(k.to_string(), "1".to_string());
                i += 1;
            }
        } else {
            i += 1;
        }
    }
    m
}

pub fn now_ms() -> u128 {
    std::time::SystemTime::now()
        .duration_since(std::time::UNIX_EPOCH)
        .unwrap()
        .as_millis()
}

/// Install a panic hook that remembers the location and message of the last panic in this
/// process (per thread) instead of printing it.
pub fn install_panic_recorder() {
    std::panic::set_hook(Box::new(|info| {
        let loc = info
            .location()
            .map(|l| format!("{}:{}", l.file(), l.line()))
            .unwrap_or_else(|| "?".to_string());
        let msg = if let Some(s) = info.payload().downcast_ref::<&str>() {
            s.to_string()
        } else if let Some(s) = info.payload().downcast_ref::<String>() {
            s.clone()
        } else {
            "<non-string panic payload>".to_string()
        };
        // also on stderr (captured per case): if the panic cannot unwind (e.g. native JIT frames on
        // the stack) the process aborts and this line is the only trace of where it started
        eprintln!("VHPANIC {} | {}", norm_loc(&loc), msg.chars().take(160).collect::<String>());
        let mut g = LAST_PANIC.lock().unwrap_or_else(|p| p.into_inner());
        g.push((loc, msg));
    }));
}

pub static LAST_PANIC: std::sync::Mutex<Vec<(String, String)>> = std::sync::Mutex::new(Vec::new());

pub fn take_panics() -> Vec<(String, String)> {
    let mut g = LAST_PANIC.lock().unwrap_or_else(|p| p.into_inner());
    std::mem::take(&mut *g)
}

/// Strip the absolute prefix so panic locations are stable signatures.
pub fn norm_loc(loc: &str) -> String {
    if let Some(idx) = loc.find("crates/") {
        loc[idx..].to_string()
    } else if let Some(idx) = loc.find("/registry/src/") {
        let tail = &loc[idx + "/registry/src/".len()..];
        match tail.find('/') {
            Some(j) => tail[j + 1..].to_string(),
            None => tail.to_string(),
        }
    } else {
        loc.to_string()
    }
}
