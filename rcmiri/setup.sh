#!/bin/bash
# builds the native history driver and warms the Miri sysroot (offline)
set -e
cd "$(dirname "$0")"
export CARGO_NET_OFFLINE=true
cp -n /repo/Cargo.lock . 2>/dev/null || true
CARGO_TARGET_DIR=/verif/.build/rcmiri cargo build --release --offline >/dev/null 2>&1
(timeout 600 cargo +nightly miri run --offline --target-dir /verif/.build/rcmiri-miri -- 1 1 5 seq >/dev/null 2>&1) || true
echo rcmiri-ok
