//! History driver for steel-rc's biased reference counting (C05), runnable natively and under Miri.
//!
//! usage: rcmiri <seed> <histories> <ops-per-history> <mode: seq|conc|both|race|mrace>
//!
//! seq : one operation at a time (the driver waits for each worker's acknowledgement), so every
//!       object's history is sequential and an exact shadow count is known: asserted are
//!       get_mut()==Some  =>  shadow count == 1, try_unwrap()==Ok => shadow count == 1, the payload's
//!       canary on every access, destructor runs <= 1 at all times and == 0 while the shadow count > 0.
//! conc: workers run their operations concurrently; only schedule-independent facts are asserted
//!       (canary on every access, every payload destroyed exactly once at the end).
//! Under Miri every access to freed memory, every data race and every other UB is reported by the
//! interpreter itself; natively the canary / destructor counters are the oracle.

use std::sync::atomic::{AtomicUsize, Ordering};
use std::sync::mpsc::{channel, Receiver, Sender};
use std::sync::{Arc, Mutex};
use steel_rc::{BiasedRc, QueueHandle};

struct Rng(u64);
impl Rng {
    fn next(&mut self) -> u64 {
        let mut x = self.0;
        x ^= x >> 12;
        x ^= x << 25;
        x ^= x >> 27;
        self.0 = x;
        x.wrapping_mul(0x2545F4914F6CDD1D)
    }
    fn below(&mut self, n: usize) -> usize {
        (self.next() >> 33) as usize % n.max(1)
    }
}

const CANARY: u64 = 0xC0FFEE_5EED_u64;

static NEXT_ID: AtomicUsize = AtomicUsize::new(0);
static DROPS: Mutex<Vec<usize>> = Mutex::new(Vec::new());
static VIOLATIONS: Mutex<Vec<String>> = Mutex::new(Vec::new());

fn violation(msg: String) {
    VIOLATIONS.lock().unwrap().push(msg);
}

struct Payload {
    id: usize,
    canary: Vec<u64>,
}

impl Payload {
    fn new() -> Self {
        let id = NEXT_ID.fetch_add(1, Ordering::SeqCst);
        let mut d = DROPS.lock().unwrap();
        if d.len() <= id {
            d.resize(id + 1, 0);
        }
        Payload { id, canary: vec![CANARY ^ id as u64; 3] }
    }
    fn check(&self, what: &str) {
        if self.canary.len() != 3 || self.canary.iter().any(|c| *c != CANARY ^ self.id as u64) {
            violation(format!("payload {} corrupted when accessed by {}", self.id, what));
        }
        if DROPS.lock().unwrap()[self.id] != 0 {
            violation(format!("payload {} accessed by {} after its destructor ran", self.id, what));
        }
    }
}

impl Clone for Payload {
    fn clone(&self) -> Self {
        self.check("clone-of-payload");
        Payload::new()
    }
}

impl Drop for Payload {
    fn drop(&mut self) {
        let mut d = DROPS.lock().unwrap();
        d[self.id] += 1;
        if d[self.id] > 1 {
            drop(d);
            violation(format!("payload {} destroyed more than once", self.id));
        }
    }
}

type H = BiasedRc<Payload>;

enum Cmd {
    Take(H),              // receive a handle from another thread
    CloneAt(usize),
    DropAt(usize),
    GetMutAt(usize),
    MakeMutAt(usize),
    TryUnwrapAt(usize),
    CountAt(usize),
    SendAt(usize, usize), // move handle idx to thread t (through the driver)
    Merge,
    New,
    Quit,
}

enum Ack {
    Done,
    Moved(H, usize),
    /// what happened, for the shadow model: (object id, delta, note)
    Did(Vec<(usize, i64)>, Option<String>),
}

/// Executes one command on a thread's own handle list. Returns shadow-model deltas.
fn exec(me: usize, hs: &mut Vec<H>, cmd: Cmd, shadow: Option<&Mutex<Vec<i64>>>) -> Ack {
    let count_of = |id: usize| -> Option<i64> { shadow.map(|s| s.lock().unwrap()[id]) };
    match cmd {
        Cmd::New => {
            let h = BiasedRc::new(Payload::new());
            let id = h.id;
            hs.push(h);
            Ack::Did(vec![(id, 1)], None)
        }
        Cmd::Take(h) => {
            h.check("take");
            hs.push(h);
            Ack::Done
        }
        Cmd::CloneAt(i) if !hs.is_empty() => {
            let i = i % hs.len();
            hs[i].check("clone");
            let c = hs[i].clone();
            let id = c.id;
            hs.push(c);
            Ack::Did(vec![(id, 1)], None)
        }
        Cmd::DropAt(i) if !hs.is_empty() => {
            let i = i % hs.len();
            hs[i].check("drop");
            let h = hs.swap_remove(i);
            let id = h.id;
            drop(h);
            Ack::Did(vec![(id, -1)], None)
        }
        Cmd::GetMutAt(i) if !hs.is_empty() => {
            let i = i % hs.len();
            let id = hs[i].id;
            let before = count_of(id);
            let got = BiasedRc::get_mut(&mut hs[i]).map(|p| {
                p.check("get_mut");
                p.canary[0] = CANARY ^ id as u64; // exclusive write
            });
            if got.is_some() {
                if let Some(c) = before {
                    if c != 1 {
                        return Ack::Did(vec![], Some(format!(
                            "get_mut granted exclusive access to payload {id} on thread {me} while {c} references exist")));
                    }
                }
            }
            Ack::Did(vec![], None)
        }
        Cmd::MakeMutAt(i) if !hs.is_empty() => {
            let i = i % hs.len();
            let id = hs[i].id;
            let before = count_of(id);
            let p = BiasedRc::make_mut(&mut hs[i]);
            p.check("make_mut");
            let nid = p.id;
            if nid == id {
                // in place: must have been unique
                if let Some(c) = before {
                    if c != 1 {
                        return Ack::Did(vec![], Some(format!(
                            "make_mut mutated payload {id} in place on thread {me} while {c} references exist")));
                    }
                }
                Ack::Did(vec![], None)
            } else {
                // copied: this handle now refers to a new object, the old one lost one reference
                Ack::Did(vec![(nid, 1), (id, -1)], None)
            }
        }
        Cmd::TryUnwrapAt(i) if !hs.is_empty() => {
            let i = i % hs.len();
            let h = hs.swap_remove(i);
            let id = h.id;
            let before = count_of(id);
            match BiasedRc::try_unwrap(h) {
                Ok(p) => {
                    p.check("try_unwrap");
                    drop(p);
                    if let Some(c) = before {
                        if c != 1 {
                            return Ack::Did(vec![(id, -1)], Some(format!(
                                "try_unwrap moved payload {id} out on thread {me} while {c} references exist")));
                        }
                    }
                    Ack::Did(vec![(id, -1)], None)
                }
                Err(h) => {
                    hs.push(h);
                    Ack::Did(vec![], None)
                }
            }
        }
        Cmd::CountAt(i) if !hs.is_empty() => {
            let i = i % hs.len();
            let _ = BiasedRc::strong_count(&hs[i]); // documented as approximate: exercised, not asserted
            Ack::Done
        }
        Cmd::SendAt(i, to) if !hs.is_empty() => {
            let i = i % hs.len();
            let h = hs.swap_remove(i);
            Ack::Moved(h, to)
        }
        Cmd::Merge => {
            QueueHandle::run_explicit_merge();
            Ack::Done
        }
        _ => Ack::Done,
    }
}

fn random_cmd(r: &mut Rng, nthreads: usize) -> Cmd {
    match r.below(16) {
        0 | 1 => Cmd::New,
        2 | 3 | 4 => Cmd::CloneAt(r.below(64)),
        5 | 6 | 7 => Cmd::DropAt(r.below(64)),
        8 | 9 => Cmd::GetMutAt(r.below(64)),
        10 => Cmd::MakeMutAt(r.below(64)),
        11 => Cmd::TryUnwrapAt(r.below(64)),
        12 => Cmd::CountAt(r.below(64)),
        13 | 14 => Cmd::SendAt(r.below(64), r.below(nthreads)),
        _ => Cmd::Merge,
    }
}

fn check_shadow_vs_drops(shadow: &Mutex<Vec<i64>>, when: &str) {
    let s = shadow.lock().unwrap();
    let d = DROPS.lock().unwrap();
    for (id, c) in s.iter().enumerate() {
        if *c > 0 && d.get(id).copied().unwrap_or(0) != 0 {
            violation(format!("payload {id} destroyed while {c} references exist ({when})"));
        }
        if *c < 0 {
            violation(format!("shadow count of payload {id} is negative ({when}) - driver bug"));
        }
    }
}

/// Sequential mode: the driver (thread 0) owns the schedule; workers execute one command at a time.
fn history_seq(seed: u64, ops: usize, nworkers: usize) {
    let mut r = Rng(seed | 1);
    let base = NEXT_ID.load(Ordering::SeqCst);
    let _ = base;
    let shadow: Arc<Mutex<Vec<i64>>> = Arc::new(Mutex::new(vec![0; 0]));
    let mut txs: Vec<Sender<Cmd>> = Vec::new();
    let mut rxs: Vec<Receiver<Ack>> = Vec::new();
    let mut joins = Vec::new();
    for w in 0..nworkers {
        let (tx, rx) = channel::<Cmd>();
        let (atx, arx) = channel::<Ack>();
        let sh = shadow.clone();
        joins.push(steel_rc::with_explicit_merge(move || {
            let mut hs: Vec<H> = Vec::new();
            while let Ok(cmd) = rx.recv() {
                if matches!(cmd, Cmd::Quit) {
                    break;
                }
                let ack = exec(w + 1, &mut hs, cmd, Some(&sh));
                if atx.send(ack).is_err() {
                    break;
                }
            }
            drop(hs);
        }));
        txs.push(tx);
        rxs.push(arx);
    }
    let mut mine: Vec<H> = Vec::new();
    let apply = |deltas: Vec<(usize, i64)>, note: Option<String>, shadow: &Mutex<Vec<i64>>| {
        let mut s = shadow.lock().unwrap();
        for (id, d) in deltas {
            if s.len() <= id {
                s.resize(id + 1, 0);
            }
            s[id] += d;
        }
        drop(s);
        if let Some(n) = note {
            violation(n);
        }
    };
    // handles still held by worker w when it quits are dropped there: account for them at the end
    let mut held: Vec<Vec<usize>> = vec![Vec::new(); nworkers + 1];
    for _ in 0..ops {
        let t = r.below(nworkers + 1);
        let cmd = random_cmd(&mut r, nworkers + 1);
        if std::env::var("RCMIRI_TRACE").is_ok() {
            let name = match &cmd {
                Cmd::New => "new".to_string(),
                Cmd::CloneAt(i) => format!("clone@{i}"),
                Cmd::DropAt(i) => format!("drop@{i}"),
                Cmd::GetMutAt(i) => format!("get_mut@{i}"),
                Cmd::MakeMutAt(i) => format!("make_mut@{i}"),
                Cmd::TryUnwrapAt(i) => format!("try_unwrap@{i}"),
                Cmd::CountAt(i) => format!("count@{i}"),
                Cmd::SendAt(i, to) => format!("send@{i}->t{to}"),
                Cmd::Merge => "merge".to_string(),
                _ => "?".to_string(),
            };
            println!("TRACE t{t} {name}");
        }
        let ack = if t == 0 {
            exec(0, &mut mine, cmd, Some(&shadow))
        } else {
            txs[t - 1].send(cmd).unwrap();
            rxs[t - 1].recv().unwrap()
        };
        match ack {
            Ack::Done => {}
            Ack::Did(d, n) => apply(d, n, &shadow),
            Ack::Moved(h, to) => {
                if to == 0 {
                    mine.push(h);
                } else {
                    txs[to - 1].send(Cmd::Take(h)).unwrap();
                    let _ = rxs[to - 1].recv().unwrap();
                }
            }
        }
        let _ = &mut held;
        check_shadow_vs_drops(&shadow, "after an operation");
    }
    // wind down: everything still held is dropped by its holder
    for tx in &txs {
        let _ = tx.send(Cmd::Quit);
    }
    for j in joins {
        let _ = j.join();
    }
    drop(mine);
    QueueHandle::run_explicit_merge();
}

/// Concurrent mode: every thread runs its own random operations; handles travel through channels.
fn history_conc(seed: u64, ops: usize, nworkers: usize) {
    let mut chans: Vec<(Sender<H>, Option<Receiver<H>>)> = Vec::new();
    for _ in 0..nworkers + 1 {
        let (tx, rx) = channel::<H>();
        chans.push((tx, Some(rx)));
    }
    let senders: Vec<Sender<H>> = chans.iter().map(|c| c.0.clone()).collect();
    let mut joins = Vec::new();
    for w in 0..nworkers + 1 {
        let rx = chans[w].1.take().unwrap();
        let senders = senders.clone();
        let body = move || {
            let mut r = Rng((seed ^ (w as u64 + 1).wrapping_mul(0x9E3779B97F4A7C15)) | 1);
            let mut hs: Vec<H> = Vec::new();
            for _ in 0..ops {
                while let Ok(h) = rx.try_recv() {
                    h.check("recv");
                    hs.push(h);
                }
                let cmd = random_cmd(&mut r, senders.len());
                if let Ack::Moved(h, to) = exec(w, &mut hs, cmd, None) {
                    if senders[to].send(h).is_err() {
                        // receiver gone: the handle is dropped here
                    }
                }
            }
            drop(senders);
            // drain what is still in flight to us, then drop everything
            while let Ok(h) = rx.try_recv() {
                hs.push(h);
            }
            drop(hs);
            drop(rx);
        };
        joins.push(steel_rc::with_explicit_merge(body));
    }
    drop(senders);
    drop(chans);
    for j in joins {
        let _ = j.join();
    }
    QueueHandle::run_explicit_merge();
}

struct SendPtr(*const H);
unsafe impl Send for SendPtr {}

/// Targeted schedule family: the owner drops its *last* owner-side reference (biased counter 1 -> 0, which merges
/// into the shared word with a compare-exchange loop) while another thread, which obtained its reference by
/// cloning on its own side, clones and drops in a tight loop (so the shared word changes under the owner's
/// feet). Asserted per round: the payload is intact whenever the helper touches it, and it is destroyed exactly
/// once after both sides are done.
fn history_race(seed: u64, rounds: usize, spins: usize) {
    let (to_helper, from_owner) = channel::<Option<SendPtr>>();
    let (to_owner, from_helper) = channel::<u8>();
    let helper = steel_rc::with_explicit_merge(move || {
        let mut r = Rng(seed | 1);
        while let Ok(Some(p)) = from_owner.recv() {
            // SAFETY: the owner keeps its handle alive until we acknowledge the clone
            let mine: H = unsafe { (&*p.0).clone() };
            to_owner.send(1).unwrap();
            let n = 1 + r.below(spins.max(1));
            for _ in 0..n {
                let c = mine.clone();
                c.check("race-helper");
                drop(c);
            }
            mine.check("race-helper-last");
            drop(mine);
            to_owner.send(2).unwrap();
        }
    });
    let mut r = Rng(seed.wrapping_mul(31) | 1);
    for _ in 0..rounds {
        let h: H = BiasedRc::new(Payload::new());
        let id = h.id;
        // sometimes the owner holds a second owner-side reference that it drops first
        let extra = if r.below(3) == 0 { Some(h.clone()) } else { None };
        to_helper.send(Some(SendPtr(&h as *const H))).unwrap();
        assert_eq!(from_helper.recv().unwrap(), 1);
        drop(extra);
        for _ in 0..r.below(4) {
            std::hint::spin_loop();
        }
        drop(h);
        assert_eq!(from_helper.recv().unwrap(), 2);
        QueueHandle::run_explicit_merge();
        let n = DROPS.lock().unwrap()[id];
        if n != 1 {
            violation(if n == 0 {
                format!("payload {id} was never destroyed although every reference was dropped (race round)")
            } else {
                format!("payload {id} destroyed more than once (race round: {n} times)")
            });
        }
    }
    to_helper.send(None).unwrap();
    let _ = helper.join();
}

static MERGE_GO: AtomicUsize = AtomicUsize::new(0);

/// Second targeted family: the owner runs an *explicit merge* of an object on its queue (the object was queued
/// because a handle counted on the owner's side was dropped on the helper's thread) while the helper, which
/// meanwhile cloned a reference of its own, drops that last reference. The merge publishes the merged flag with a
/// positive count; from then on the helper's drop may free the box. Asserted per round: payload intact whenever
/// it is touched, destroyed exactly once after both sides are done.
fn history_mrace(seed: u64, rounds: usize, spins: usize) {
    let (to_helper, from_owner) = channel::<Option<(H, SendPtr)>>();
    let (to_owner, from_helper) = channel::<u8>();
    let helper = steel_rc::with_explicit_merge(move || {
        let mut r = Rng(seed | 1);
        while let Ok(Some((moved, p))) = from_owner.recv() {
            moved.check("mrace-helper-moved");
            // counted on the owner's side, dropped here: shared counter goes to -1, the object is queued
            drop(moved);
            // SAFETY: the owner keeps its handle alive until we acknowledge the clone
            let mine: H = unsafe { (&*p.0).clone() };
            let stamp = mine.id + 1;
            to_owner.send(1).unwrap();
            mine.check("mrace-helper-last");
            // wait until the owner is about to merge, then drop after a short random delay
            let mut waited = 0usize;
            while MERGE_GO.load(Ordering::Acquire) != stamp && waited < 50_000_000 {
                waited += 1;
                if cfg!(miri) {
                    std::thread::yield_now();
                } else {
                    std::hint::spin_loop();
                }
            }
            for _ in 0..r.below(spins.max(1)) {
                std::hint::spin_loop();
            }
            drop(mine);
            to_owner.send(2).unwrap();
        }
    });
    let mut r = Rng(seed.wrapping_mul(37) | 1);
    for _ in 0..rounds {
        let h: H = BiasedRc::new(Payload::new());
        let id = h.id;
        let moved = h.clone();
        to_helper.send(Some((moved, SendPtr(&h as *const H)))).unwrap();
        assert_eq!(from_helper.recv().unwrap(), 1);
        // the owner's side count stays at 1 after this drop (the moved handle was counted here)
        drop(h);
        for _ in 0..r.below(4) {
            std::hint::spin_loop();
        }
        MERGE_GO.store(id + 1, Ordering::Release);
        QueueHandle::run_explicit_merge();
        assert_eq!(from_helper.recv().unwrap(), 2);
        QueueHandle::run_explicit_merge();
        let n = DROPS.lock().unwrap()[id];
        if n != 1 {
            violation(if n == 0 {
                format!("payload {id} was never destroyed although every reference was dropped (merge-race round)")
            } else {
                format!("payload {id} destroyed more than once (merge-race round: {n} times)")
            });
        }
    }
    to_helper.send(None).unwrap();
    let _ = helper.join();
}

fn main() {
    let a: Vec<String> = std::env::args().collect();
    let seed: u64 = a.get(1).and_then(|s| s.parse().ok()).unwrap_or(1);
    let hist: usize = a.get(2).and_then(|s| s.parse().ok()).unwrap_or(4);
    let ops: usize = a.get(3).and_then(|s| s.parse().ok()).unwrap_or(40);
    let mode = a.get(4).map(|s| s.as_str()).unwrap_or("both").to_string();
    // RCMIRI_QUARANTINE=1: steel-rc's verif hook keeps destroyed boxes (poisoned) instead of freeing them and
    // reports every entry point of the counting scheme that is handed a destroyed box - a use-after-free becomes
    // a report naming the site instead of undefined behaviour
    let quarantine = !cfg!(miri) && std::env::var("RCMIRI_QUARANTINE").map(|v| v == "1").unwrap_or(false);
    if quarantine {
        steel_rc::verif::enable();
    }
    steel_rc::register_thread();
    let mut total_ops = 0usize;
    for h in 0..hist {
        let s = seed.wrapping_mul(1_000_003).wrapping_add(h as u64 * 7919 + 1);
        let workers = 1 + (s as usize % 2);
        if mode == "seq" || mode == "both" {
            history_seq(s, ops, workers);
            total_ops += ops;
        }
        if mode == "race" {
            history_race(s ^ 0x5EED, ops, if cfg!(miri) { 6 } else { 3000 });
            total_ops += ops;
        }
        if mode == "mrace" {
            history_mrace(s ^ 0x3E26E, ops, if cfg!(miri) { 4 } else { 400 });
            total_ops += ops;
        }
        if mode == "conc" || mode == "both" {
            history_conc(s ^ 0xABCDEF, ops, workers);
            total_ops += ops * (workers + 1);
        }
    }
    QueueHandle::run_explicit_merge();
    // end state: every payload destroyed exactly once
    let d = DROPS.lock().unwrap().clone();
    let mut never = 0;
    for (id, n) in d.iter().enumerate() {
        if *n == 0 {
            never += 1;
            if never <= 5 {
                violation(format!("payload {id} was never destroyed although every reference was dropped"));
            }
        }
    }
    if quarantine {
        let mut sites: Vec<(&'static str, usize)> = Vec::new();
        for r in steel_rc::verif::take_reports() {
            match sites.iter_mut().find(|x| x.0 == r) {
                Some(x) => x.1 += 1,
                None => sites.push((r, 1)),
            }
        }
        for (site, n) in sites {
            // in front of the (possibly many) leak lines, so that it is among the lines printed
            VIOLATIONS.lock().unwrap().insert(0, format!("destroyed box handed to {site} [{n} time(s)]"));
        }
    }
    let v = VIOLATIONS.lock().unwrap();
    println!("RCMIRI seed={seed} histories={hist} ops={total_ops} objects={} violations={}", d.len(), v.len());
    for m in v.iter().take(20) {
        println!("RCVIOLATION {m}");
    }
    // argv[5] = "tolerate-leaks": a run whose only findings are never-destroyed payloads exits 0, so that a
    // many-seeds Miri exploration is not cut short by the (known) leak
    let tolerate = a.get(5).map(|s| s == "tolerate-leaks").unwrap_or(false);
    let serious = v.iter().any(|m| !m.contains("never destroyed"));
    if serious || (!v.is_empty() && !tolerate) {
        std::process::exit(1);
    }
}
