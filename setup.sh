#!/bin/bash
# Build the verification harness from /repo's working tree (offline).
set -e
cd "$(dirname "$0")"
export CARGO_NET_OFFLINE=true
python3 - <<'PY'
import sys
sys.path.insert(0, '.')
from vlib import core
core.build('plain')
PY
if [ -d rcmiri ]; then
  (cd rcmiri && ./setup.sh) || echo "rcmiri setup failed (C05 will report inconclusive)"
fi
echo setup-ok
