#!/usr/bin/env python3
"""Regenerates DESIGN.md from design/head.md, design/prose/Cxx.md, known_findings.json, seeded/*/meta.json
and design/tail.md, so that the per-property finding lists and the seeded-change table never go stale."""
import json, os, glob
HERE = os.path.dirname(os.path.dirname(os.path.abspath(__file__)))
props = [json.loads(l) for l in open(os.path.join(HERE, "properties.jsonl"))]
kf = json.load(open(os.path.join(HERE, "known_findings.json")))
out = [open(os.path.join(HERE, "design/head.md")).read().rstrip() + "\n\n", "## 2. Per property (all levels: exploration)\n\n"]
for p in props:
    cid = p["id"]
    out.append("### %s — %s\n\n" % (cid, p["title"]))
    out.append(open(os.path.join(HERE, "design/prose/%s.md" % cid)).read().strip() + "\n\n")
    fixed = [e for e in kf if e["property"] == cid and e["status"] == "fixed"]
    known = [e for e in kf if e["property"] == cid and e["status"] == "known"]
    if fixed:
        out.append("Genuine defects repaired (`fix:` commits in /repo):\n\n")
        for e in fixed:
            w = e["what_fails"]
            w = w.split(" ", 3)[3] if w.startswith("fixed: property=") else w
            out.append("* %s — %s\n" % (e.get("commit", "?"), w[:420]))
        out.append("\n")
    if known:
        out.append("Known findings (recorded, not repaired; each prints KNOWN-FINDING when its witness is met):\n\n")
        for e in known:
            out.append("* **%s** %s\n" % (e["id"], e["what_fails"][:520]))
        out.append("\n")
out.append("## 3. Seeded changes (independent sub-agents, given only the property text and a scratch worktree)\n\n")
out.append("| id | change (agent's summary) | result | note |\n|----|--------------------------|--------|------|\n")
n = {"caught": 0, "missed": 0, "thorough": 0}
for d in sorted(glob.glob(os.path.join(HERE, "seeded/*/meta.json"))):
    m = json.load(open(d))
    sid = os.path.basename(os.path.dirname(d))
    cb = m.get("caught_by") or ""
    notes = m.get("notes") or ""
    if cb.upper().startswith("NOT CAUGHT"):
        res = "**missed**"; n["missed"] += 1
    elif "thorough" in cb and "quick" not in cb.split("thorough")[0]:
        res = "caught by thorough tier only"; n["thorough"] += 1
    else:
        res = "caught"; n["caught"] += 1
    summ = (m.get("summary") or "").replace("|", "/").replace("\n", " ")[:170]
    note = (notes or "caught at first attempt").replace("|", "/").replace("\n", " ")
    if res == "caught":
        note = note + " — " + cb.replace("|", "/").replace("\n", " ")[:200]
    out.append("| %s | %s | %s | %s |\n" % (sid, summ, res, note))
out.append("\n%d seeded changes: %d caught by the quick tier, %d by the thorough tier only, %d missed.\n" % (sum(n.values()), n["caught"], n["thorough"], n["missed"]))
out.append("""
Every kept change was confirmed by the sub-agent (full nextest run: 664 pass + the 6 baseline failures;
demo passes without and fails with the patch) and by me (`tools/try_mutant.sh`: patch applies to /repo,
harness rebuilds, quick check run, patch reverted).  Checks were strengthened after each miss; the
"note" column says how.

""")
out.append(open(os.path.join(HERE, "design/tail.md")).read())
open(os.path.join(HERE, "DESIGN.md"), "w").write("".join(out))
print("DESIGN.md regenerated: %d properties, %d findings, seeded %s" % (len(props), len(kf), n))
