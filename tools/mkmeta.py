#!/usr/bin/env python3
"""usage: mkmeta.py <seeded id> <caught_by> <notes>  — writes seeded/<id>/meta.json from agent_meta.json + what was run here."""
import json, sys, os
sid, caught_by, notes = sys.argv[1], sys.argv[2], sys.argv[3]
d = os.path.join(os.path.dirname(os.path.dirname(os.path.abspath(__file__))), "seeded", sid)
a = json.load(open(os.path.join(d, "agent_meta.json")))
m = {
    "property": a.get("property", sid.split("-")[0]),
    "summary": a.get("summary"),
    "needs_to_manifest": a.get("needs_to_manifest"),
    "files_changed": a.get("files_changed"),
    "agent_demo_cmd": a.get("demo_cmd"),
    "agent_demo_with_patch": a.get("demo_result_with_patch"),
    "agent_demo_without_patch": a.get("demo_result_without_patch"),
    "agent_tests": a.get("tests"),
    "what_i_ran": "in the agent's scratch worktree: applied patch.diff, cargo build, ran the demo (fails), reverted, rebuilt, ran the demo (passes); "
                  "tools/try_mutant.sh patch.diff <checks> against /repo (patch applied, harness rebuilt, quick tier, patch reverted)",
    "caught_by": caught_by,
    "notes": notes,
}
json.dump(m, open(os.path.join(d, "meta.json"), "w"), indent=1)
print("wrote", sid)
