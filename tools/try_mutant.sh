#!/bin/bash
# usage: try_mutant.sh <patch.diff> <Cxx> [<Cyy> ...]   — apply a seeded change to /repo, run the quick checks, undo it.
set -u
PATCH=$1; shift
cd /repo || exit 2
if ! git diff --quiet; then echo "/repo has uncommitted changes"; exit 2; fi
if ! git apply --check "$PATCH" 2>/dev/null; then echo "PATCH DOES NOT APPLY: $PATCH"; git apply --check "$PATCH"; exit 2; fi
git apply "$PATCH"
cd /verif
for c in "$@"; do
  echo "=== $c with $(basename $(dirname $PATCH))/$(basename $PATCH)"
  VERIF_TIER=${TIER:-quick} timeout ${TMO:-2400} ./check $c --tier ${TIER:-quick} 2>&1 | grep -v "^KNOWN-FINDING\|^\[build" | cut -c1-400 | head -${LINES_MAX:-30}
done
git -C /repo checkout -- .
git -C /repo status --short | head -3
