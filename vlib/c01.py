"""C01 — compiled execution agrees with the language's reference semantics.

Differential runtime monitoring: seeded type-directed programs are evaluated by the reference
machine (vlib.schemeref, both operand orders; order-sensitive / out-of-subset programs are discarded)
and by the real engine - as a top-level evaluation, as a required module (the way `steel file.scm`
runs a script; this is where natively compiled code is exercised most) and with the JIT off.
Compared: error-or-success outcome, the sequence of values passed to (verif-emit ..) (rendered
independently of Steel's printer), and the bytes written to stdout."""
import json

from . import core, schemeref as R
from .gen_prog import Gen

CONFIGS = [("top", {}, False), ("module", {}, True), ("top-nojit", {"STEEL_JIT": "false"}, False)]


def observe(unit_result):
    """(outcome, emits, out) of one evaluated unit record from the harness."""
    u = unit_result
    return ("ok" if u.get("ok") else "err", u.get("emits") or [], u.get("out") or "")


def expected(ref):
    return (ref["outcome"], ref["emits"], ref["out"])


FEATURES_ATTEMPTED = set()


def gen_corpus(rng, n, prop="C01"):
    progs = []
    discarded = 0
    tries = 0
    while len(progs) < n and tries < n * 6:
        tries += 1
        g = Gen(rng)
        try:
            forms = g.program()
        except (RecursionError, IndexError, ValueError):
            discarded += 1
            continue
        FEATURES_ATTEMPTED.update(g.features)
        ref = R.reference(forms, fuel=60000) if static_ok(forms) else None
        if ref is None:
            discarded += 1
            continue
        progs.append({"forms": forms, "src": R.program_source(forms), "ref": ref, "features": sorted(g.features)})
    return progs, discarded


def run_config(progs, env, as_module, tag):
    cases = []
    for i, p in enumerate(progs):
        c = {"id": "p%d" % i, "units": [p["src"]], "timeout_ms": 30000}
        if as_module:
            c["as_module"] = True
        cases.append(c)
    results, meta = core.run_cases(cases, env=env, tag=tag)
    return results, meta


def first_diff(exp, got):
    if exp[0] != got[0]:
        return "outcome: reference=%s engine=%s" % (exp[0], got[0])
    for i, (a, b) in enumerate(zip(exp[1], got[1])):
        if a != b:
            return "emit #%d: reference=%s engine=%s" % (i, a[:120], b[:120])
    if len(exp[1]) != len(got[1]):
        return "number of emitted values: reference=%d engine=%d" % (len(exp[1]), len(got[1]))
    if exp[2] != got[2]:
        return "stdout: reference=%r engine=%r" % (exp[2][:120], got[2][:120])
    return None


def diff_kind(exp, got, u):
    """Coarse class of a divergence, used in the signature."""
    if exp[0] != got[0]:
        if got[0] == "err":
            k = u.get("kind") or "?"
            if u.get("panics"):
                return "engine panics (%s)" % core.panic_sig(tuple(u["panics"][0]))
            return "engine raises %s where the reference succeeds" % k
        return "engine succeeds where the reference raises"
    if u.get("panics"):
        return "engine panics (%s)" % core.panic_sig(tuple(u["panics"][0]))
    if exp[0] == "err" and not got[1] and not got[2] and (exp[1] or exp[2]):
        return "engine fails before the effects that precede the error (%s)" % (u.get("kind") or "?")
    if exp[1] != got[1]:
        n = min(len(exp[1]), len(got[1]))
        for a, b in zip(exp[1], got[1]):
            if a != b:
                if b == "void" or "void" in b and "void" not in a:
                    return "a value became #<void>"
                return "wrong value"
        return "missing or extra observable effects"
    return "stdout differs"


# ------------------------------------------------------------------------------------------------
# attribution of a (shrunk) divergence to a known root cause: a predicate over the witness

def _walk(x):
    if isinstance(x, list):
        yield x
        for e in x:
            yield from _walk(e)


def _atoms(x):
    if isinstance(x, list):
        for e in x:
            yield from _atoms(e)
    else:
        yield x


def _binding_test(t):
    """a test expression that introduces a binding: (or a b ..), let-forms, immediate lambda application"""
    if not isinstance(t, list) or not t:
        return False
    h = t[0]
    if h == "or" and len(t) >= 3:
        return True
    if h in ("let", "let*", "letrec"):
        return True
    return isinstance(h, list) and h and h[0] == "lambda"


def attribute(forms, kind, unit, as_module):
    src = R.program_source(forms)
    err = (unit or {}).get("err") or ""
    nodes = list(_walk(forms))
    if ("FreeIdentifier" in kind or (unit or {}).get("kind") == "FreeIdentifier") and any(
            n and n[0] in ("let", "let*") and len(n) > 2 and isinstance(n[1], list) and len(n[1]) >= 2 and
            any(isinstance(b, list) and len(b) == 2 and isinstance(b[1], list) and b[1] and b[1][0] == "quote" for b in n[1])
            for n in nodes):
        return ("F01 let that binds a quoted constant next to another binding makes the bound name a free identifier "
                "(or, if an enclosing binding has that name, a reference to the enclosing one)")
    if "FreeIdentifier" in kind or (unit or {}).get("kind") == "FreeIdentifier":
        for n in nodes:
            if n and n[0] == "let" and len(n) > 2 and isinstance(n[1], list) and len(n[1]) >= 2:
                bs = [b for b in n[1] if isinstance(b, list) and len(b) == 2 and isinstance(b[0], R.Sym)]
                for b in bs:
                    if not isinstance(b[1], (list, R.Sym)) and any(o is not b and any(a == b[0] for a in _atoms(o[1])) for o in bs):
                        return ("F13 let that binds a literal constant to a name shadowing an enclosing variable, next to a binding whose "
                                "initialiser reads that variable, makes the other bound name a free identifier")
    if "wrong value" in kind or "void" in kind or "stdout" in kind:
        # the same dropped binding, seen from the other side: the name then resolves to an enclosing binding of that name
        def binds(n):
            if n and n[0] in ("let", "let*", "letrec") and len(n) > 2 and isinstance(n[1], list):
                return [b[0] for b in n[1] if isinstance(b, list) and len(b) == 2]
            if n and n[0] == "lambda" and len(n) > 2 and isinstance(n[1], list):
                return [p for p in n[1] if isinstance(p, R.Sym)]
            if n and n[0] == "define" and len(n) > 2 and isinstance(n[1], list):
                return [p for p in n[1][1:] if isinstance(p, R.Sym)]
            return []

        def inner_const_lets(n, outer):
            if not isinstance(n, list):
                return False
            if n and n[0] in ("let", "let*") and len(n) > 2 and isinstance(n[1], list) and len(n[1]) >= 2:
                for b in n[1]:
                    if isinstance(b, list) and len(b) == 2 and isinstance(b[1], list) and b[1] and b[1][0] == "quote" and b[0] in outer:
                        return True
            o2 = outer | set(binds(n))
            return any(inner_const_lets(e, o2) for e in n)
        if inner_const_lets(forms, set()):
            return ("F01 let that binds a quoted constant next to another binding makes the bound name a free identifier "
                    "(or, if an enclosing binding has that name, a reference to the enclosing one)")
    if "succeeds where the reference raises" in kind or "effects" in kind:
        arities = {}
        for f in forms:
            if isinstance(f, list) and len(f) > 2 and f[0] == "define" and isinstance(f[1], list) and R.DOT not in f[1]:
                arities[f[1][0]] = len(f[1]) - 1
        if any(n and isinstance(n[0], R.Sym) and n[0] in arities and len(n) - 1 != arities[n[0]] for n in nodes):
            return "F02 call with the wrong number of arguments of a function defined in the same unit is accepted (extra operands are dropped unevaluated)"
    if any(n and n[0] in ("if", "when", "unless") and len(n) > 1 and _binding_test(n[1]) for n in nodes) or \
            any(n and n[0] in ("and", "or") and any(_binding_test(t) for t in n[1:-1]) for n in nodes) or \
            any(n and n[0] == "cond" and any(isinstance(c, list) and c and _binding_test(c[0]) for c in n[1:]) for n in nodes):
        if "wrong value" in kind or "stdout" in kind or "void" in kind or "effects" in kind or "raises" in kind:
            return "F03 conditional whose test introduces a binding ((or a b), let, lambda application) takes the wrong branch"
    stderr = (unit or {}).get("stderr") or ""
    ptxt = str((unit or {}).get("panics")) + kind + stderr
    if "jit2/cgen.rs" in ptxt and "not yet implemented" in ptxt:
        return "F09 native code generator reaches todo!() (ALLOC/READALLOC/SETALLOC: set! of a let-bound variable in an internal define) and poisons the JIT lock"
    if "PoisonError" in ptxt or "Deprecated now - this shouldn't be hit" in ptxt:
        return "F09 native code generator reaches todo!() (ALLOC/READALLOC/SETALLOC: set! of a let-bound variable in an internal define) and poisons the JIT lock"
    if "succeeds where the reference raises" in kind:
        def used(name, body):
            return any(e == name for b in body for e in _atoms(b))
        for n in nodes:
            if n and n[0] in ("let", "let*") and len(n) > 2 and isinstance(n[1], list):
                for idx, b in enumerate(n[1]):
                    if isinstance(b, list) and len(b) == 2 and isinstance(b[0], R.Sym):
                        later = [bb[1] for bb in n[1][idx + 1:] if isinstance(bb, list) and len(bb) == 2] if n[0] == "let*" else []
                        if not used(b[0], n[2:] + later) and isinstance(b[1], list):
                            return "F08 the initialiser of an unused let / let* binding is not evaluated, so an error it would raise is lost"
    if "couldn't match the name for the op code" in ptxt:
        return "F06 (module mode) native code generator panics on + - * / < <= > >= applied to an unsupported number of operands"
    if "TypeMismatch" in kind and "#&" in err:
        return "F04 read of an assigned variable captured by a loop closure yields its box instead of its value"
    if as_module and "void" in kind and any(
            isinstance(f, list) and f and f[0] != "define" and any(n and n[0] == "with-handler" for n in _walk(f)) for f in forms):
        return "F10 (module mode) a with-handler form evaluated at the top level of a module yields #<void> when its handler runs"
    if as_module and any(isinstance(f, list) and len(f) > 2 and f[0] == "define" and isinstance(f[1], list) and
                         len([p for p in f[1][1:] if isinstance(p, R.Sym)]) >= 5 for f in forms):
        if "TypeMismatch" in kind or "TypeMismatch" in str((unit or {}).get("kind")):
            return "F11 (module mode) a function with seven parameters applied both directly and through apply inside its own argument list receives a wrong argument"
    global BUILTINS
    if BUILTINS is None:
        static_ok([])
    if as_module and any(n and n[0] in ("let", "let*", "letrec") and len(n) > 2 and isinstance(n[1], list) and
                         any(isinstance(b, list) and b and b[0] in BUILTINS for b in n[1]) for n in nodes):
        return "F07 (module mode) a local binding that shadows a builtin name is ignored: the builtin is called instead"
    if as_module and any(n and isinstance(n[0], list) and len(n[0]) > 1 and n[0][0] == "lambda" and isinstance(n[0][1], R.Sym) for n in nodes):
        return "F05 (module mode) immediate application of a rest-argument lambda to an empty list argument drops it"
    return None


F12 = ("F12 (JIT on) an error the reference raises is lost in natively compiled code: the failing operation (car, +, unbox on an "
       "ill-typed operand inside a closure called from a module's top level or inside a prelude function such as foldr) yields "
       "#<void> and execution continues - up to unbounded recursion and SIGSEGV; correct with STEEL_JIT=false")

KNOWN_WITNESSES = [
    # witnesses of repaired defects (regression watch: a divergence here is reported under its own signature)
    ("FX-negate", "(define (f x) (- x)) (verif-emit (map f (list 1 'a)))", True),
    ("FX-if-merge-spill", "(define (f0 a0) (+ 0 (if (list) 8 (display 3)))) (define (f1 a4) (f0 77)) (verif-emit (f1 2))", True),
    ("FX-set!-rhs-closure", "(verif-emit (let ((v 4)) (set! v (let ((p v)) v)) v))", False),
    ("FX-const-let-shadow", "(define (f4 acc) (let ((acc 2) (tmp acc)) tmp)) (verif-emit (f4 6))", True),
    ("F13", "(define (f4 acc) (let ((acc 2) (tmp acc)) tmp)) (verif-emit (f4 6))", False),
    ("F12", "(verif-emit ((lambda (g) (g 1)) (lambda (a) (car a))))", True),
    ("F12", "(verif-emit (foldr + 0 5))", False),
    ("F10", "(define v (vector 5 1)) (verif-emit (with-handler (lambda (e) 'err) (vector-ref v 3)))", True),
    ("F08", "(verif-emit (let* ((v21 0) (v22 (car (vector->list (vector))))) (+ v21)))", False),
    ("F09", "(define (f0 a3) (define (inner4 z) (let* ((v4 (list)) (v1 a3)) (set! v1 (+ v1 2)) 0)) 0) (verif-emit 1)", False),
    ("F07", "(verif-emit (let ((not (lambda (x) (+ x 5)))) (not 1)))", True),
    ("F01", "(verif-emit (let ((v3 (vector 4 7)) (v4 '())) v4))", False),
    ("F01", "(verif-emit (let ((v4 (list 1 2))) (let ((v7 (vector 5 3)) (v4 'b)) v4)))", False),
    ("F02", "(define (g3 a b) (list a b)) (verif-emit (g3 1 2 (begin (verif-emit 'evaluated) 3)))", False),
    ("F03", "(verif-emit (if (or #f #f) 'yes 'no))", False),
    ("F03", "(verif-emit (letrec ((v4 (lambda (x5) 1))) (if (let ((v9 100)) #f) 'yes 'no)))", False),
    ("F04", "(verif-emit (let* ((v16 -4) (v19 9)) (set! v16 (+ ((lambda (p22) (let loop0 ((i1 0) (acc1 v16)) acc1)) #f))) v16))", False),
    ("F05", "(write (let ((v6 \"\") (v4 0)) ((lambda args args) (list))))", True),
]


def batch_check(programs, env, as_module, tag="c01s"):
    """Evaluate several programs (lists of forms), each alone on a fresh engine.
    Returns a list aligned with programs: (exp, got, unit) or None if the program left the subset."""
    refs = []
    cases = []
    for i, forms in enumerate(programs):
        try:
            ref = R.reference(forms, fuel=60000) if static_ok(forms) else None
        except Exception:
            ref = None   # a shrinking candidate that is not a well-formed program
        refs.append(ref)
        if ref is not None:
            c = {"id": "x%d" % i, "units": [R.program_source(forms)], "timeout_ms": 30000}
            if as_module:
                c["as_module"] = True
            cases.append(c)
    res, _ = core.run_cases(cases, env=env, tag=tag) if cases else ({}, None)
    out = []
    for i, ref in enumerate(refs):
        r = res.get("x%d" % i)
        if ref is None or r is None:
            out.append(None)
        elif r["status"] != "ok":
            out.append((expected(ref), ("died:" + r["status"], [], ""), {"kind": r["status"]}))
        else:
            u = r["units"][0]
            out.append((expected(ref), observe(u), u))
    return out


def kind_of(x):
    return diff_kind(x[0], x[1], x[2]) if not x[1][0].startswith("died") else "engine process %s" % x[1][0][5:]


def _paths(x, path=()):
    """Paths to every sub-node that is in expression position (heuristically: anything but a head symbol)."""
    if isinstance(x, list):
        for i, e in enumerate(x):
            if i == 0 and isinstance(e, R.Sym):
                continue
            yield path + (i,), e
            if isinstance(e, list):
                yield from _paths(e, path + (i,))


def _replace(x, path, new):
    if not path:
        return new
    c = list(x)
    c[path[0]] = _replace(x[path[0]], path[1:], new)
    return c


def _size(x):
    return 1 + sum(_size(e) for e in x) if isinstance(x, list) else 1


def candidates(forms, limit=400):
    """Smaller variants: drop one top-level form; replace a sub-expression by one of its own
    sub-expressions or by a literal."""
    out = []
    for i in range(len(forms)):
        if len(forms) > 1:
            out.append(forms[:i] + forms[i + 1:])
    nodes = list(_paths(forms))
    nodes.sort(key=lambda pe: -_size(pe[1]))
    limit = 120
    for path, e in nodes:
        if not isinstance(e, list) or len(path) < 2:
            continue
        subs = [c for c in e[1:] if not (isinstance(c, list) and c and isinstance(c[0], list) and e[0] in ("let", "let*", "letrec", "cond", "case", "do"))]
        for c in subs[:4]:
            if _size(c) < _size(e):
                out.append(_replace(forms, path, c))
        for litv in (0, True, [R.Sym("list")]):
            out.append(_replace(forms, path, litv))
        if len(out) > limit:
            break
    # drop elements of let binding lists / begin bodies
    for path, e in nodes:
        if isinstance(e, list) and len(e) > 2 and len(path) >= 2:
            for i in range(1, len(e)):
                out.append(_replace(forms, path, e[:i] + e[i + 1:]))
            if len(out) > 2 * limit:
                break
    def sane(prog):
        return not any(n and isinstance(n[0], (int, bool, float)) for n in _walk(prog))
    return [c for c in out[:2 * limit] if sane(c)]


def shrink(forms, env, as_module, kind, rounds=8, ref_outcome=None):
    """Greedy tree shrinking: every round evaluates a batch of smaller variants (reference and real
    engine) and keeps the smallest that still shows the same kind of divergence."""
    forms = list(forms)
    for _ in range(rounds):
        cands = candidates(forms)
        if not cands:
            break
        outs = batch_check(cands, env, as_module)
        best = None
        for c, x in zip(cands, outs):
            if x is not None and x[0] != x[1] and kind_of(x) == kind and (ref_outcome is None or x[0][0] == ref_outcome):
                if best is None or _size(c) < _size(best):
                    best = c
        if best is None or _size(best) >= _size(forms):
            break
        forms = best
    return forms


def check_one(forms, env, as_module):
    return batch_check([forms], env, as_module)[0]


BUILTINS = None


def static_ok(forms):
    """Every variable reference is bound lexically, by an earlier top-level definition, or is a
    builtin of the reference machine: Steel rejects the whole unit at compile time otherwise (before
    any effect), which the run-time reference does not model."""
    global BUILTINS
    if BUILTINS is None:
        BUILTINS = set(R.Machine().globals.vars) | set(R.SPECIAL)
    defined = set()

    def walk(x, bound):
        if isinstance(x, R.Sym):
            return x in bound or x in defined or x in BUILTINS or str(x).startswith("#:")
        if not isinstance(x, list) or not x:
            return True
        h = x[0]
        if h == "quote":
            return True
        if h == "define":
            tgt = x[1]
            if isinstance(tgt, list):
                ps = [p for p in tgt[1:] if isinstance(p, R.Sym)]
                return all(walk(b, bound | set(ps) | {tgt[0]} | internal(x[2:])) for b in x[2:])
            return walk(x[2], bound | {tgt})
        if h == "lambda":
            ps = x[1] if isinstance(x[1], list) else [x[1]]
            ps = {p for p in ps if isinstance(p, R.Sym)}
            return all(walk(b, bound | ps | internal(x[2:])) for b in x[2:])
        if h == "case-lambda":
            ok = True
            for cl in x[1:]:
                ps = cl[0] if isinstance(cl[0], list) else [cl[0]]
                ps = {p for p in ps if isinstance(p, R.Sym)}
                ok = ok and all(walk(b, bound | ps | internal(cl[1:])) for b in cl[1:])
            return ok
        if h in ("let", "let*", "letrec", "letrec*") and len(x) > 2:
            if isinstance(x[1], R.Sym):
                names = {b[0] for b in x[2]} | {x[1]}
                return all(walk(b[1], bound) for b in x[2]) and all(walk(b, bound | names | internal(x[3:])) for b in x[3:])
            names = set()
            ok = True
            for b in x[1]:
                scope = bound | names if h != "let" else bound
                if h.startswith("letrec"):
                    scope = bound | {bb[0] for bb in x[1]}
                ok = ok and walk(b[1], scope)
                names.add(b[0])
            return ok and all(walk(b, bound | names | internal(x[2:])) for b in x[2:])
        if h == "do":
            names = {s[0] for s in x[1]}
            return all(walk(e, bound | names) for s in x[1] for e in s[1:]) and all(walk(e, bound | names) for e in x[2] + x[3:])
        if h == "case":
            return walk(x[1], bound) and all(isinstance(c, list) and all(walk(e, bound) for e in c[1:]) for c in x[2:])
        if h == "cond":
            return all(isinstance(c, list) and c and all(walk(e, bound) for e in (c[1:] if c[0] == "else" else c)) for c in x[1:])
        if h == "struct":
            return True
        return all(walk(e, bound) for e in x)

    def internal(body):
        out = set()
        for f in body:
            if isinstance(f, list) and f and f[0] == "define":
                out.add(f[1][0] if isinstance(f[1], list) else f[1])
        return out
    for f in forms:
        if isinstance(f, list) and f and f[0] == "define":
            name = f[1][0] if isinstance(f[1], list) else f[1]
            if name in BUILTINS:
                return False
            if isinstance(f[1], list):
                defined.add(name)   # a function may call itself
            if not walk(f, set()):
                return False
            defined.add(name)
        elif isinstance(f, list) and f and f[0] == "struct":
            n = f[1]
            defined.update({n, R.Sym(n + "?")} | {R.Sym("%s-%s" % (n, x)) for x in f[2]} | {R.Sym("set-%s-%s!" % (n, x)) for x in f[2]})
        elif not walk(f, set()):
            return False
    return True


def main(tier, prop="C01"):
    rep = core.Reporter(prop, tier)
    n = 3000 if tier == "quick" else 150000
    rng = core.rng(prop)
    progs, discarded = gen_corpus(rng, n)
    rep.note("programs_discarded_by_soundness_filter", discarded)
    rep.coverage["rule"] = (
        "seeded type-directed programs (definitions, closures, fixed/rest arguments, let/let*/letrec/named let, cond/case/"
        "and/or, set! of locals, captured variables and globals, quotation, lists, vectors, hash maps, strings, higher-order "
        "library procedures, call/cc escapes, handlers, dead code that would raise, live errors, wrong-arity calls, locally "
        "rebound builtin names); kept only if the reference gives the same result under left-to-right and right-to-left "
        "operand evaluation within its fuel; distinct by source text; non-trivial = the reference took >= 30 steps and the "
        "program has an observable effect")
    feats = {}
    for p in progs:
        for f in p["features"]:
            feats[f] = feats.get(f, 0) + 1
    rep.note("programs_by_feature", feats)
    never = sorted(FEATURES_ATTEMPTED - set(feats))
    if never:
        # a construct the generator emits but the reference never accepts is not observed at all
        rep.inconclusive_note("generated features never accepted by the reference: %s" % ", ".join(never), floor=True)
    ref_outcomes = {"ok": 0, "err": 0}
    for p in progs:
        ref_outcomes[p["ref"]["outcome"]] += 1
        if p["ref"]["steps"] >= 30 and (p["ref"]["emits"] or p["ref"]["out"]):
            rep.nontrivial(p["src"])
    rep.note("reference_outcomes", ref_outcomes)
    for cname, env, as_module in CONFIGS:
        results, meta = run_config(progs, env, as_module, "c01")
        for e in meta["harness_errors"]:
            rep.inconclusive_note("harness: %s" % e)
        suspects = []
        for i, p in enumerate(progs):
            r = results.get("p%d" % i)
            if r is None:
                continue
            rep.count()
            exp = expected(p["ref"])
            if r["status"] != "ok":
                suspects.append((i, exp, ("died:" + r["status"], [], ""), {"kind": r["status"], "stderr": r.get("stderr_tail", "")}))
                continue
            u = r["units"][0]
            got = observe(u)
            if got != exp:
                suspects.append((i, exp, got, u))
            elif len(rep.coverage["samples"]) < 5 and p["ref"]["steps"] > 80 and len(p["src"]) < 700:
                rep.sample({"config": cname, "program": p["src"], "outcome": exp[0], "emitted": exp[1][:6], "stdout": exp[2][:80],
                            "reference_steps": p["ref"]["steps"]})
        rep.add("mismatches_before_confirmation", len(suspects))
        # analyse: suspects whose *unshrunk* program matches no known root cause first
        def pre(sx):
            i, exp, got, u = sx
            k = kind_of((exp, got, u))
            return (attribute(progs[i]["forms"], k, u, as_module) is not None, len(progs[i]["src"]))
        suspects.sort(key=pre)
        seen_kind = {}
        analysed = 0
        budget = 8 if tier == "quick" else 40
        for i, exp, got, u in suspects:
            kind = kind_of((exp, got, u))
            pre_attr = attribute(progs[i]["forms"], kind, u, as_module)
            key = pre_attr or kind
            seen_kind[key] = seen_kind.get(key, 0) + 1
            if seen_kind[key] > (1 if pre_attr else 2) or analysed >= budget:
                continue
            analysed += 1
            forms = progs[i]["forms"]
            again = check_one(forms, env, as_module)
            if again is None or again[0] == again[1]:
                rep.inconclusive_note("divergence not reproduced alone (%s, %s)" % (cname, kind))
                continue
            kind = kind_of(again)
            small = shrink(forms, env, as_module, kind, rounds=10, ref_outcome=again[0][0])
            fin = check_one(small, env, as_module) or again
            src = R.program_source(small)
            attr = attribute(small, kind, fin[2], as_module)
            if attr is None and not env.get("STEEL_JIT") and fin[0][0] == "err" and (
                    "succeeds where the reference raises" in kind or "void" in kind or "signal:11" in kind or "effects" in kind):
                # the reference raises; does the engine agree with it once native code generation is off?
                nj = check_one(small, dict(env, STEEL_JIT="false"), as_module)
                if nj is not None and nj[0] == nj[1]:
                    attr = F12
            sig = "%s %s" % (prop, attr) if attr else "%s %s [%s]" % (prop, kind, "module" if as_module else "top-level")
            rep.violation(sig, "config=%s %s\nprogram:\n%s" % (cname, first_diff(fin[0], fin[1]), src),
                          {"config": env, "as_module": as_module, "src": src, "expected": list(fin[0])})
        unanalysed = sum(max(0, v - 1) for v in seen_kind.values())
        rep.add("divergences_of_an_already_analysed_class", unanalysed)
        rep.note("divergence_classes_%s" % cname, seen_kind)
    # ill-typed run-time operands inside compiled functions (the typed generator never produces them): the operators
    # whose error behaviour the reference pins, applied in 11 code shapes; which calls raise is part of the semantics
    from . import c07
    PINNED = {"+", "-", "*", "<", "<=", ">", ">=", "=", "car", "cdr", "cons", "null?", "not", "vector-ref", "vector-set!", "list-ref",
              "length", "quotient", "modulo", "remainder", "hash-ref", "string-length", "string-append", "vector-length", "reverse",
              "abs", "zero?", "even?", "add1", "sub1", "char->integer", "apply", "cadr"}
    ill = []
    for desc, text in c07.gen_compiled_programs(core.rng(prop, "ill-typed"), 550 if tier == "quick" else 11000):
        if desc.split("/")[0] in PINNED:
            try:
                ill.append((desc, R.parse(text)))
            except Exception:
                pass
    ill_seen = {"accepted_by_reference": 0, "calls_that_raise": 0, "calls_that_return": 0}
    for cname, env, as_module in CONFIGS:
        outs = batch_check([f for _, f in ill], env, as_module, tag="c01i")
        for (desc, forms), x in zip(ill, outs):
            if x is None:
                continue
            rep.count()
            rep.nontrivial((desc, cname))
            if cname == "top":
                ill_seen["accepted_by_reference"] += 1
                ill_seen["calls_that_raise"] += sum(1 for e in x[0][1] if e == 'y:"err"')
                ill_seen["calls_that_return"] += sum(1 for e in x[0][1] if e not in ('y:"err"', 'y:"survived"'))
            if x[0] != x[1]:
                sig = "%s ill-typed operand of %s in a compiled function: %s [%s]" % (
                    prop, desc.split("/")[0], kind_of(x), "module" if as_module else "top-level")
                rep.violation(sig, "config=%s %s (%s)\nprogram:\n%s" % (cname, first_diff(x[0], x[1]), desc, R.program_source(forms)),
                              {"config": env, "as_module": as_module, "src": R.program_source(forms), "expected": list(x[0])})
    rep.note("ill_typed_operand_programs", ill_seen)
    if ill and not ill_seen["accepted_by_reference"]:
        rep.inconclusive_note("the reference accepted none of the ill-typed-operand programs", floor=True)
    # the fixed witnesses of the known findings (the generator steers around these constructs)
    import os
    extra = []
    wdir = os.path.join(core.VERIF, "witnesses")
    if os.path.exists(os.path.join(wdir, "C01-F11.scm")):
        extra.append(("F11", open(os.path.join(wdir, "C01-F11.scm")).read(), True))
    for fid, text, as_mod in KNOWN_WITNESSES + extra:
        forms = R.parse(text)
        x = check_one(forms, {}, as_mod)
        rep.count()
        if x is not None and x[0] != x[1]:
            attr = attribute(forms, kind_of(x), x[2], as_mod)
            if attr is None and fid == "F12":
                attr = F12
            sig = "%s %s" % (prop, attr) if attr else "%s witness %s: %s" % (prop, fid, kind_of(x))
            rep.violation(sig, "known-finding witness %s\nprogram:\n%s\n%s" % (fid, text, first_diff(x[0], x[1])),
                          {"config": {}, "as_module": as_mod, "src": R.program_source(forms), "expected": list(x[0])})
    rep.assumptions += ["vlib.schemeref is the reference semantics of the generated subset (its pinned deviations are listed "
                        "in its docstring)", "programs whose result depends on operand evaluation order are discarded"]
    if len(progs) < n // 3:
        rep.inconclusive_note("generator produced only %d programs" % len(progs), floor=True)
    return rep.finish()


def replay(path, prop="C01"):
    d = json.load(open(path))["replay"]
    c = {"id": "x", "units": [d["src"]], "timeout_ms": 30000}
    if d.get("as_module"):
        c["as_module"] = True
    res, _ = core.run_cases([c], env=d.get("config"), shards=1)
    r = res["x"]
    print(json.dumps(r, indent=1)[:3000])
    got = list(observe(r["units"][0])) if r["status"] == "ok" and r["units"] else ["died"]
    print("expected", d["expected"])
    print("observed", got)
    if got != d["expected"]:
        print("VIOLATION property=%s replay=%s" % (prop, path))
        return 1
    return 0
