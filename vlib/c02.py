"""C02 — observable behaviour is independent of JIT and optimisation configuration.

N-version runtime monitoring of the real engine against itself: the same deterministic programs
(the C01 corpus: accepted by the reference machine, hence terminating and order-insensitive) are
evaluated in separate OS processes under different settings of STEEL_JIT, STEEL_INLINE,
STEEL_INLINE_RECURSIVE, STEEL_CLOSURE_LIFTING and STEEL_MODULE_INLINE, both as top-level
evaluations and as required modules, and multi-unit histories (later units redefine / assign globals
that earlier, possibly natively compiled, functions use).  Any difference in (outcome, emitted
values, stdout) between a configuration and the baseline configuration (all optimisations off,
JIT off) is a violation; the reference machine is only used to describe it."""
import itertools
import json

from . import core, schemeref as R
from . import c01, c07

SWITCHES = {
    "jit": ({"STEEL_JIT": "false"}, {}),                       # (off, on)  -- on is the default
    "inline": ({}, {"STEEL_INLINE": "1"}),
    "inline-rec": ({}, {"STEEL_INLINE_RECURSIVE": "1"}),
    "lift": ({"STEEL_CLOSURE_LIFTING": "false"}, {}),
    "modinline": ({}, {"STEEL_MODULE_INLINE": "1"}),
}


def env_of(on):
    env = {}
    for name, (off, onv) in SWITCHES.items():
        env.update(onv if name in on else off)
    return env


BASE = frozenset()     # everything off
DEFAULT = frozenset({"jit", "lift"})
ALL = frozenset(SWITCHES)


def configs(tier):
    cs = [BASE, DEFAULT, ALL, frozenset({"jit"}), frozenset({"lift"}), frozenset({"jit", "lift", "inline"}),
          frozenset({"jit", "lift", "inline-rec"}), frozenset({"jit", "lift", "modinline"})]
    if tier == "thorough":
        cs = [frozenset(c) for k in range(len(SWITCHES) + 1) for c in itertools.combinations(sorted(SWITCHES), k)]
    out = []
    for c in cs:
        if c not in out:
            out.append(c)
    return out


def cname(c):
    return "+".join(sorted(c)) or "none"


def history_corpus(rng, n):
    """Multi-unit histories: unit 1 defines functions; later units redefine a helper / set! a global the
    earlier functions use, then call the earlier functions again."""
    out = []
    for i in range(n):
        a, b, c = rng.randint(1, 9), rng.randint(1, 9), rng.randint(2, 5)
        loop = rng.choice([True, False])
        u1 = ["(define counter %d)" % a,
              "(define (helper x) (+ x %d))" % b,
              "(define (user n) (if (<= n 0) counter (+ (helper n) (user (- n 1)))))" if loop else
              "(define (user n) (+ (helper n) counter))",
              "(verif-emit (user %d))" % c]
        u2 = [rng.choice(["(define (helper x) (* x %d))" % (b + 1), "(set! counter (+ counter %d))" % b,
                          "(define counter %d)" % (a + 10), "(set! helper (lambda (x) (- x %d)))" % b]),
              "(verif-emit (user %d))" % c]
        u3 = [rng.choice(["(set! counter 0)", "(define (helper x) x)", "(define (user n) 'redefined)"]),
              "(verif-emit (user %d))" % c, "(verif-emit (helper 1))", "(verif-emit counter)"]
        out.append(["\n".join(u1), "\n".join(u2), "\n".join(u3)])
    return out


def main(tier):
    rep = core.Reporter("C02", tier)
    n = 1500 if tier == "quick" else 30000
    rng = core.rng("C02")
    progs, discarded = c01.gen_corpus(rng, n)
    hists = history_corpus(rng, 60 if tier == "quick" else 2000)
    ill = c07.gen_compiled_programs(rng, 330 if tier == "quick" else 6000)   # ill-typed run-time operands in compiled functions
    cfgs = configs(tier)
    rep.coverage["rule"] = (
        "C01 corpus (reference-accepted, order-insensitive, terminating) x {top-level, module} and generated 3-unit "
        "histories (redefinition / set! of globals used by earlier compiled functions), each run in one OS process per "
        "configuration of the five switches, plus functions applying each operator that has its own opcode / native helper to "
        "ill-typed run-time operands (errors trapped by a compiled caller: which calls raise must not depend on the configuration); every configuration is compared with the all-off baseline; distinct by "
        "(program, mode); non-trivial = the program has an observable effect")
    rep.note("configurations", [cname(c) for c in cfgs])
    obs = {}
    for c in cfgs:
        env = env_of(c)
        for mode in ("top", "module"):
            cases = []
            for i, p in enumerate(progs):
                cs = {"id": "p%d" % i, "units": [p["src"]], "timeout_ms": 30000}
                if mode == "module":
                    cs["as_module"] = True
                cases.append(cs)
            for i, (desc, src) in enumerate(ill):
                cs = {"id": "x%d" % i, "units": [src], "timeout_ms": 30000}
                if mode == "module":
                    cs["as_module"] = True
                cases.append(cs)
            if mode == "top":
                for i, h in enumerate(hists):
                    cases.append({"id": "h%d" % i, "units": h, "timeout_ms": 30000})
            results, meta = core.run_cases(cases, env=env, tag="c02")
            for e in meta["harness_errors"]:
                rep.inconclusive_note("harness: %s" % e)
            for cid, r in results.items():
                rep.count()
                if r["status"] != "ok":
                    o = ("died:" + r["status"],)
                else:
                    o = tuple(c01.observe(u) for u in r["units"])
                obs[(c, mode, cid)] = (o, r)
    for p in progs:
        if p["ref"]["emits"] or p["ref"]["out"]:
            rep.nontrivial(p["src"])
    for h in hists:
        rep.nontrivial(tuple(h))
    for desc, src in ill:
        rep.nontrivial(src)
    # compare with the baseline; name the switch that explains each divergence
    div = {}
    for (c, mode, cid), (o, r) in obs.items():
        if c == BASE:
            continue
        base = obs.get((BASE, mode, cid))
        if base is not None and base[0] != o:
            div.setdefault((mode, cid), {})[c] = (o, r, base[0])
    classes = {}
    for (mode, cid), bycfg in sorted(div.items()):
        is_hist = cid.startswith("h")
        is_ill = cid.startswith("x")
        src = hists[int(cid[1:])] if is_hist else ([ill[int(cid[1:])][1]] if is_ill else [progs[int(cid[1:])]["src"]])
        explained = []
        for sw in ("jit", "lift"):
            if frozenset({sw}) in bycfg:
                explained.append((sw, frozenset({sw})))
        for sw in ("inline", "inline-rec", "modinline"):
            c = frozenset({"jit", "lift", sw})
            if c in bycfg and DEFAULT not in bycfg:
                explained.append((sw, c))
        if not explained:
            c = sorted(bycfg, key=len)[0]
            explained.append(("combination " + cname(c), c))
        for sw, c in explained:
            o, r, b = bycfg[c]
            u = None
            idx = []
            if r["status"] == "ok":
                idx = [k for k, (ub, uc) in enumerate(zip(b, o)) if ub != uc]
                u = r["units"][idx[0]] if idx else None
            kind = "process %s" % r["status"] if r["status"] != "ok" else c01.diff_kind(
                b[idx[0]] if idx else ("?", [], ""), o[idx[0]] if idx else ("?", [], ""), u or {})
            attr = None
            if not is_hist and not is_ill:
                attr = c01.attribute(progs[int(cid[1:])]["forms"], kind, u, mode == "module")
                # only findings that depend on the native code generator can differ between configurations
                if attr and not attr.startswith(("F05", "F06", "F07", "F09")):
                    attr = None
            if attr is None and r["status"] != "ok" and not is_hist and not is_ill:
                # the process died under a panic of the native code generator (it cannot unwind through native frames):
                # same root causes as the panics C01 attributes from a unit's panic record
                tail = r.get("stderr_tail", "")
                if "couldn't match the name for the op code" in tail:
                    attr = "F06 (module mode) native code generator panics on + - * / < <= > >= applied to an unsupported number of operands"
            if attr is None and mode == "module" and sw == "jit" and ("succeeds" in kind or "void" in kind or "raises" in kind or "effects" in kind):
                # baseline (JIT off) raises, the JIT configuration goes on: the error is lost in native code
                if b and any(x[0] == "err" for x in b) and all(x[0] == "ok" for x in o if isinstance(x, tuple)):
                    attr = c01.F12
            if is_ill:
                attr = None
            key = attr or "%s (%s, switch %s)" % (kind, "history" if is_hist else mode, sw)
            if is_ill:
                key = "ill-typed operand of %s in a compiled function: %s" % (ill[int(cid[1:])][0].split("/")[0], key)
            classes.setdefault(key, []).append((cname(c), mode, src, b, o))
    for key, items in sorted(classes.items()):
        cn, mode, src, b, o = min(items, key=lambda it: len("\n".join(it[2])))
        rep.violation("C02 %s" % key, "config=%s mode=%s\nbaseline=%s\nthis    =%s\nprogram:\n%s" % (
            cn, mode, str(b)[:300], str(o)[:300], "\n;; next unit\n".join(src)[:1500]),
            {"config": cn, "mode": mode, "units": src})
    rep.note("divergence_classes", {k: len(v) for k, v in classes.items()})
    if len(rep.coverage["samples"]) < 3:
        for p in progs[:3]:
            rep.sample({"program": p["src"][:500], "configs_agreeing": len(cfgs)})
    rep.assumptions += ["the all-off configuration is the baseline the others are compared with",
                        "the corpus is deterministic (accepted by the reference machine under both operand orders)"]
    return rep.finish()


def replay(path):
    d = json.load(open(path))["replay"]
    on = frozenset(x for x in d["config"].split("+") if x in SWITCHES)
    outs = []
    for c in (BASE, on):
        cs = {"id": "r", "units": d["units"], "timeout_ms": 30000}
        if d["mode"] == "module":
            cs["as_module"] = True
        res, _ = core.run_cases([cs], env=env_of(c), shards=1)
        r = res["r"]
        outs.append(tuple(c01.observe(u) for u in r["units"]) if r["status"] == "ok" else r["status"])
        print(cname(c), outs[-1])
    if outs[0] != outs[1]:
        print("VIOLATION property=C02 replay=%s" % path)
        return 1
    return 0
