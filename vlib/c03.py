"""C03 — immutable values never change: the in-place update optimisation is unobservable.

Differential monitoring against the reference machine, whose collections are plainly persistent
(every functional update copies).  Seeded operation sequences over lists, pairs, immutable vectors,
hash maps, hash sets and strings in which every new value is bound under a seeded *aliasing pattern*
(not aliased - so the engine's unique-reference in-place path is taken; aliased by another variable
whose later use is / is not its last use; captured by a closure; stored in a container; passed twice
to one call; updated inside a library callback or through apply; updated inside a function whose
parameter is at its last use; updated on another thread) and the program itself re-observes every
alias after every update."""
import json

from . import core, schemeref as R
from . import c01

KINDS = {
    "hash": {
        "init": ["(hash 'a 1 'b 2)", "(hash)", "(hash 'k (list 1 2) 'a 0)"],
        "updates": ["(hash-insert X 'z %d)", "(hash-insert X 'a %d)", "(hash-remove X 'a)", "(hash-union X (hash 'u %d))",
                    "(hash-union (hash 'u %d) X)", "(hash-insert (hash-insert X 'p %d) 'q 0)"],
    },
    "hashset": {
        "init": ["(hashset 1 2 3)", "(hashset)"],
        "updates": ["(hashset-insert X %d)", "(hashset-insert (hashset-insert X %d) 99)"],
    },
    "list": {
        "init": ["(list 1 2 3)", "(list)", "(list (list 1) 2)"],
        "updates": ["(cons %d X)", "(append X (list %d))", "(reverse X)", "(append X X)", "(cdr (cons %d X))", "(map (lambda (e) e) X)", "(cdr X)"],
    },
    "ivec": {
        "init": ["(immutable-vector 1 2 3)", "(immutable-vector)"],
        "updates": ["(immutable-vector-push X %d)", "(vector-push-front X %d)" if False else "(immutable-vector-push X %d)"],
    },
    "string": {
        "init": ['"abc"', '""'],
        "updates": ['(string-append X "%d")', '(string-append "%d" X)', "(string-append X X)"],
    },
}


def gen_program(r):
    kind = r.choice(list(KINDS))
    spec = KINDS[kind]
    lines = ["(define v0 %s)" % r.choice(spec["init"])]
    aliases = ["v0"]          # names that must keep their value
    observers = []            # expressions re-observed after every update
    cur = "v0"
    n = 0
    pats = []
    for step in range(r.randint(3, 9)):
        upd = r.choice(spec["updates"])
        if "%d" in upd:
            upd = upd % r.randint(0, 9)
        pat = r.choice(["plain", "plain", "alias-kept", "alias-dropped", "closure", "container", "twice", "callback", "apply",
                        "function-last-use", "function-not-last-use", "thread", "let-chain", "deep-parameter", "deep-parameter"])
        pats.append(pat)
        n += 1
        new = "v%d" % n
        if pat == "plain":
            lines.append("(define %s %s)" % (new, upd.replace("X", cur)))
        elif pat == "alias-kept":
            al = "a%d" % n
            lines.append("(define %s %s)" % (al, cur))
            aliases.append(al)
            lines.append("(define %s %s)" % (new, upd.replace("X", cur)))
        elif pat == "alias-dropped":
            # the alias is used once more before the update and never again
            lines.append("(define %s (let ((tmp %s)) (verif-emit tmp) %s))" % (new, cur, upd.replace("X", cur)))
        elif pat == "closure":
            cl = "c%d" % n
            lines.append("(define %s (let ((captured %s)) (lambda () captured)))" % (cl, cur))
            observers.append("(%s)" % cl)
            lines.append("(define %s %s)" % (new, upd.replace("X", cur)))
        elif pat == "container":
            bx = "b%d" % n
            lines.append("(define %s (vector %s))" % (bx, cur))
            observers.append("(vector-ref %s 0)" % bx)
            lines.append("(define %s %s)" % (new, upd.replace("X", "(vector-ref %s 0)" % bx)))
        elif pat == "twice":
            lines.append("(define %s ((lambda (p q) (list %s q)) %s %s))" % (new, upd.replace("X", "p"), cur, cur))
            observers.append("(car (cdr %s))" % new)
            lines.append("(define v%d (car %s))" % (n + 1, new))
            n += 1
            new = "v%d" % n
        elif pat == "callback":
            lines.append("(define %s (car (map (lambda (m) %s) (list %s))))" % (new, upd.replace("X", "m"), cur))
        elif pat == "apply":
            lines.append("(define %s (apply (lambda (m) %s) (list %s)))" % (new, upd.replace("X", "m"), cur))
        elif pat == "function-last-use":
            lines.append("(define (upd%d m) %s)" % (n, upd.replace("X", "m")))
            lines.append("(define %s (upd%d %s))" % (new, n, cur))
        elif pat == "function-not-last-use":
            lines.append("(define (upd%d m) (let ((r %s)) (list r m)))" % (n, upd.replace("X", "m")))
            lines.append("(define pair%d (upd%d %s))" % (n, n, cur))
            observers.append("(car (cdr pair%d))" % n)
            lines.append("(define %s (car pair%d))" % (new, n))
        elif pat == "deep-parameter":
            # the value arrives as a late parameter (5th or later) of a function called from another compiled
            # function, is read once and then consumed by the update in the same expression
            k = r.randint(4, 7)
            total = k + r.randint(1, 2)
            ps = ["q%d" % j for j in range(total)]
            ps[k] = "m"
            first_read = r.random() < 0.6
            body = "(list m %s)" % upd.replace("X", "m") if first_read else "(list %s m)" % upd.replace("X", "m")
            lines.append("(define (upd%d %s) %s)" % (n, " ".join(ps), body))
            args = [str(j) for j in range(total)]
            args[k] = "x"
            lines.append("(define (call%d x) (upd%d %s))" % (n, n, " ".join(args)))
            lines.append("(define pair%d (call%d %s))" % (n, n, cur))
            observers.append("(car %spair%d)" % ("" if first_read else "(cdr ", n) + ("" if first_read else ")"))
            lines.append("(define %s (car %spair%d%s))" % (new, "(cdr " if first_read else "", n, ")" if first_read else ""))
        elif pat == "thread":
            lines.append("(define %s (thread-join! (spawn-native-thread (lambda () %s))))" % (new, upd.replace("X", cur)))
        else:  # let-chain: several updates where each intermediate is at its last use
            u2 = r.choice(spec["updates"])
            if "%d" in u2:
                u2 = u2 % r.randint(0, 9)
            lines.append("(define %s (let* ((t1 %s) (t2 %s)) t2))" % (new, upd.replace("X", cur), u2.replace("X", "t1")))
        aliases.append(new)
        cur = new
        # re-observe everything
        lines.append("(verif-emit (list %s))" % " ".join(aliases + observers))
    return kind, pats, "\n".join(lines)


def reference_of(text):
    forms = R.parse(text)
    # threads: the reference runs the thunk inline (no shared mutable state is involved)
    return forms, R.reference(forms, fuel=400000)


def main(tier):
    rep = core.Reporter("C03", tier)
    n = 2500 if tier == "quick" else 150000
    r = core.rng("C03")
    progs = []
    discarded = 0
    for _ in range(n):
        kind, pats, text = gen_program(r)
        try:
            forms, ref = reference_of(text)
        except Exception:
            ref = None
        if ref is None or ref["outcome"] != "ok":
            discarded += 1
            continue
        progs.append((kind, pats, R.program_source(forms), ref))
    rep.note("programs_discarded_by_the_reference", discarded)
    rep.coverage["rule"] = (
        "operation sequences of 3-9 functional updates on hash maps, hash sets, lists, immutable vectors and strings; every "
        "new value is bound under a seeded aliasing pattern (see module docstring) and every alias/observer is re-emitted after "
        "every update; distinct by source; non-trivial = at least one update is applied to a value that is otherwise unreferenced "
        "(the in-place path) and at least one to a value that is still referenced")
    bypat = {}
    for kind, pats, src, ref in progs:
        for p in pats:
            bypat[p] = bypat.get(p, 0) + 1
        if any(p in ("plain", "alias-dropped", "let-chain", "function-last-use") for p in pats) and \
                any(p in ("alias-kept", "closure", "container", "twice", "function-not-last-use", "deep-parameter") for p in pats):
            rep.nontrivial(src)
    rep.note("updates_by_aliasing_pattern", bypat)
    uniq_total = 0
    for cname, env, opts in (("top", {}, {}), ("module", {}, {"as_module": True}), ("top-nojit", {"STEEL_JIT": "false"}, {})):
        cases = []
        for i, (kind, pats, src, ref) in enumerate(progs):
            c = {"id": "p%d" % i, "units": [src], "timeout_ms": 60000}
            c.update(opts)
            cases.append(c)
        cases_by_id = {c["id"]: c for c in cases}
        results, meta = core.run_cases(cases, env=env, tag="c03")
        for i, (kind, pats, src, ref) in enumerate(progs):
            res = results.get("p%d" % i)
            if res is None:
                continue
            rep.count()
            uniq_total += (res.get("counters") or {}).get("GET_MUT_UNIQUE", 0)
            exp = c01.expected(ref)
            replay = {"config": env, "opts": opts, "src": src, "expected": list(exp)}
            if res["status"] == "timeout":
                again = core.retry_alone(cases_by_id["p" + str(i)], env=env, tag="c03r")
                if again is not None and again["status"] == "ok":
                    rep.inconclusive_note("a time-out in the loaded batch was not reproduced alone (" + cname + ")")
                    res = again
            if res["status"] != "ok":
                if res["status"] == "timeout" and "spawn-native-thread" in src:
                    # a program with a native thread that does not finish is C16's finding (threads + allocation
                    # hang on the unchanged tree, C16-F01); it says nothing about persistence
                    rep.inconclusive_note("thread program did not finish (%s) - left to C16" % cname)
                    continue
                rep.violation("C03 %s: engine process %s" % (kind, res["status"]), "config=%s\n%s" % (cname, src[:800]), replay)
                continue
            u = res["units"][0]
            got = c01.observe(u)
            if got != exp:
                # which emitted snapshot differs first, and was it an *older* alias that changed?
                idx = next((k for k, (a, b) in enumerate(zip(exp[1], got[1])) if a != b), None)
                what = c01.diff_kind(exp, got, u)
                if idx is not None and exp[0] == got[0]:
                    what = "an observed value differs after update #%d (pattern %s)" % (idx + 1, pats[min(idx, len(pats) - 1)])
                rep.violation("C03 %s: %s" % (kind, what), "config=%s %s\nprogram:\n%s" % (cname, c01.first_diff(exp, got), src[:1500]), replay)
            elif len(rep.coverage["samples"]) < 5 and kind not in [s["kind"] for s in rep.coverage["samples"]]:
                rep.sample({"kind": kind, "patterns": pats, "config": cname, "program": src[:700], "last_snapshot": exp[1][-1][:200]})
    rep.note("engine_unique_reference_fast_path_taken", uniq_total)
    rep.assumptions += ["the reference's collections are persistent by construction (every update copies)"]
    return rep.finish()


def replay(path):
    d = json.load(open(path))["replay"]
    c = {"id": "r", "units": [d["src"]], "timeout_ms": 60000}
    c.update(d.get("opts") or {})
    res, _ = core.run_cases([c], env=d.get("config"), shards=1)
    r = res["r"]
    print(json.dumps(r, indent=1)[:3000])
    got = list(c01.observe(r["units"][0])) if r["status"] == "ok" and r["units"] else ["died"]
    print("expected", d["expected"])
    if got != d["expected"]:
        print("VIOLATION property=C03 replay=%s" % path)
        return 1
    return 0
