"""C04 — the collector never reclaims or overwrites reachable mutable storage.

Monitors: (i) H-slot: every read/write through a handle of a slot the collector has flagged free is
an event with a backtrace; (ii) H-gc poisons every slot a forced full collection leaves unreachable,
so a stale read shows up in the program's own output, which is compared with the reference machine.
Workload: root-placement templates (the only reference to a box / mutable vector / mutable struct /
assigned captured variable lives in a pending argument temporary, a let temporary, a closure capture,
a captured continuation - open and closed -, an exception handler, a wind thunk, a global incl. a
shadowed one, another reachable container, another thread's stack, the value being allocated) run
with a forced full collection at every 1st/2nd/3rd/7th allocation and with seeded jitter, JIT on and
off, top level and module mode, plus churn that re-uses freed slots."""
import json

from . import core, schemeref as R
from . import c01

PRELUDE = """(struct vf-cell (v) #:mutable)
(define (churn n) (let loop ((i 0)) (if (< i n) (begin (box i) (vector i i) (vf-cell i) (loop (+ i 1))) 'churned)))
(define (fresh-box x) (box x))"""


# the same workload under the engine's *own* collection path: churn makes cyclic garbage (which the cheap weak pass cannot
# free) and then asks for a collection with the script-visible (#%gc-collect) - Heap::value_collection / vector_collection
# themselves, not the hook's forced collection - and nothing is poisoned, so the oracle is the freed-slot monitor H-slot plus
# the output.  ((#%gc-collect) doubles the slot vectors on every call; a program calls churn a handful of times.)
PRELUDE_NATURAL = """(struct vf-cell (v) #:mutable)
(define (churn n) (let loop ((i 0)) (if (< i n) (begin (let ((b (box i))) (set-box! b b)) (let ((v (vector i i))) (vector-set! v 0 v)) (vf-cell i) (loop (+ i 1))) (begin (#%gc-collect) 'churned))))
(define (fresh-box x) (box x))"""


def templates(r):
    a, b, c = r.randint(1, 50), r.randint(51, 99), r.randint(100, 150)
    n = r.choice([3, 8, 20])
    mk = r.choice(["(box %d)", "(vector %d 0)", "(vf-cell %d)"])
    rd = {"(box %d)": "(unbox X)", "(vector %d 0)": "(vector-ref X 0)", "(vf-cell %d)": "(vf-cell-v X)"}[mk]
    wr = {"(box %d)": "(set-box! X V)", "(vector %d 0)": "(vector-set! X 0 V)", "(vf-cell %d)": "(set-vf-cell-v! X V)"}[mk]
    M = lambda v: mk % v
    RD = lambda x: rd.replace("X", x)
    WR = lambda x, v: wr.replace("X", x).replace("V", str(v))
    T = []
    T.append(("a-pending-argument", "(verif-emit (let ((l (list %s (churn %d) %s (churn %d)))) (list %s %s)))" % (
        M(a), n, M(b), n, RD("(car l)"), RD("(car (cdr (cdr l)))"))))
    T.append(("a-pending-argument-of-primitive", "(verif-emit ((lambda (x y z) (list %s y %s)) %s (churn %d) %s))" % (RD("x"), RD("z"), M(a), n, M(b))))
    T.append(("b-let-temporary", "(verif-emit (let ((x %s)) (churn %d) (let ((y %s)) (churn %d) %s (churn %d) (list %s %s))))" % (
        M(a), n, M(b), n, WR("x", c), n, RD("x"), RD("y"))))
    T.append(("c-closure-capture-in-frame", "(verif-emit (let ((get (let ((x %s)) (lambda () (churn %d) %s)))) (churn %d) (get)))" % (M(a), n, RD("x"), n)))
    T.append(("c-closure-capture-global", "(define getter (let ((x %s)) (lambda () %s)))\n(churn %d)\n(verif-emit (getter))\n(churn %d)\n(verif-emit (getter))" % (M(a), RD("x"), n, n)))
    T.append(("c-closure-in-container", "(define holder (vector (let ((x %s)) (lambda (v) %s %s))))\n(churn %d)\n(verif-emit ((vector-ref holder 0) %d))\n(churn %d)\n(verif-emit ((vector-ref holder 0) %d))" % (
        M(a), WR("x", "v"), RD("x"), n, b, n, c)))
    T.append(("c-assigned-captured-variable", "(define (make-counter) (let ((count %d)) (lambda () (set! count (+ count 1)) (churn %d) count)))\n(define c1 (make-counter))\n(define c2 (make-counter))\n(verif-emit (list (c1) (c1) (c2) (churn %d) (c1) (c2)))" % (a, n, n)))
    T.append(("c-running-instances-of-one-lambda", """(define factory (box #f))
(define (snoc below value) (cons value below))
(define (make-worker k) (let ((acc k)) (lambda (depth) (set! acc (+ acc 1)) (snoc (if (> depth 0) (((unbox factory) (+ k 100)) (- depth 1)) (begin (churn %d) (list))) acc))))
(set-box! factory make-worker)
(verif-emit (((unbox factory) %d) %d))""" % (n, a, r.choice([2, 4, 6]))))
    T.append(("m-closure-rooted-by-the-host-only", """(define (make-counter) (let ((count %d)) (lambda () (set! count (+ count 1)) count)))
(define counter (#%%closure->boxed-function (make-counter)))
(verif-emit (list (counter) (churn %d) (counter) (churn %d) (counter) (churn %d) (churn %d) (counter)))""" % (a, n, n, n, n)))
    T.append(("d-continuation-non-top-frame-closure", """(define kept #f)
(define rounds 0)
(define (make-worker k) (let ((acc k)) (lambda (thunk) (set! acc (+ acc 1)) (let ((r (thunk))) (set! acc (+ acc 10)) (list acc r)))))
(verif-emit (let ((res ((make-worker %d) (lambda () ((make-worker %d) (lambda () (call/cc (lambda (c) (set! kept c) 0)))))))) (churn %d) (set! rounds (+ rounds 1)) (if (< rounds 3) (begin (churn %d) (kept rounds)) (list res rounds))))""" % (a, b, n, n)))
    T.append(("d-open-continuation", "(verif-emit (let ((x %s)) (+ 1 (call/cc (lambda (k) (churn %d) (k %s))))))" % (M(a), n, RD("x"))))
    T.append(("d-closed-continuation-reentered", """(define kept #f)
(define rounds 0)
(verif-emit (let ((x %s)) (let ((r (call/cc (lambda (k) (set! kept k) 0)))) (churn %d) (set! rounds (+ rounds 1)) %s (if (< rounds 3) (kept rounds) (list r rounds %s)))))""" % (
        M(a), n, WR("x", "(+ r %d)" % b), RD("x"))))
    T.append(("e-exception-handler", "(verif-emit (with-handler (let ((x %s)) (lambda (e) (churn %d) %s)) (begin (churn %d) (car (vector->list (vector))))))" % (M(a), n, RD("x"), n)))
    T.append(("e-handler-reachable-only-from-continuation", """(define k #f)
(define resumed 0)
(define (make-handler tag) (let ((hits '())) (lambda (e) (set! hits (cons 'hit hits)) (list tag hits))))
(define (capture-here) (call/cc (lambda (c) (set! k c) 'captured)))
(define (guarded) (call-with-exception-handler (make-handler 'guard%d) (lambda () (capture-here) (car (vector->list (vector))))))
(define (main) (verif-emit (guarded)) (when (< resumed 1) (set! resumed (+ resumed 1)) (churn %d) (k 'again)) 'done)
(verif-emit (main))""" % (a, n)))
    T.append(("f-wind-thunk", "(define seen '())\n(verif-emit (let ((x %s)) (dynamic-wind (lambda () (churn %d)) (lambda () (churn %d) 'body) (lambda () (churn %d) (set! seen (cons %s seen))))))\n(verif-emit seen)" % (
        M(a), n, n, n, RD("x"))))
    T.append(("g-global", "(define g %s)\n(churn %d)\n%s\n(churn %d)\n(verif-emit %s)" % (M(a), n, WR("g", b), n, RD("g"))))
    T.append(("j-container-in-container", "(define outer (vector (hash 'k (list %s (vf-cell %d)))))\n(churn %d)\n(verif-emit (let ((inner (hash-ref (vector-ref outer 0) 'k))) (list %s (vf-cell-v (car (cdr inner))))))" % (
        M(a), b, n, RD("(car inner)"))))
    T.append(("j-mutable-struct-field", "(define s (vf-cell (vf-cell %s)))\n(churn %d)\n(set-vf-cell-v! (vf-cell-v s) %s)\n(churn %d)\n(verif-emit %s)" % (
        M(a), n, M(b), n, RD("(vf-cell-v (vf-cell-v s))"))))
    T.append(("k-other-thread-stack", "(verif-emit (thread-join! (spawn-native-thread (lambda () (let ((x %s)) (churn %d) %s (churn %d) %s)))))" % (M(a), n, WR("x", b), n, RD("x"))))
    T.append(("l-value-being-allocated", "(verif-emit (let ((x (box (box (vector %s %s))))) (churn %d) (let ((v (unbox (unbox x)))) (list %s %s))))" % (
        M(a), M(b), n, RD("(vector-ref v 0)"), RD("(vector-ref v 1)"))))
    T.append(("l-make-vector-of-fresh", "(verif-emit (let ((v (vector %s %s %s))) (churn %d) (list %s %s %s)))" % (
        M(a), M(b), M(c), n, RD("(vector-ref v 0)"), RD("(vector-ref v 1)"), RD("(vector-ref v 2)"))))
    T.append(("l-list->vector-of-fresh", "(verif-emit (let ((v (list->vector (list %s %s)))) (churn %d) (list %s %s)))" % (
        M(a), M(b), n, RD("(vector-ref v 0)"), RD("(vector-ref v 1)"))))
    T.append(("map-callback-temporaries", "(verif-emit (map (lambda (i) (let ((x %s)) (churn %d) %s)) (list 1 2 3)))" % (M(a), n, RD("x"))))
    T.append(("long-lived-among-garbage", "(define keep (map (lambda (i) (fresh-box i)) (list 1 2 3 4 5 6 7 8)))\n(churn %d)\n(for-each (lambda (bx) (set-box! bx (* 10 (unbox bx)))) keep)\n(churn %d)\n(verif-emit (map unbox keep))" % (n * 3, n * 3)))
    return T


FIXED = [
    # (root class, program, expected emits): scenarios the inline-thread reference cannot run
    ("h-thread-local-slot-of-parked-thread", """(define slot (make-tls #f))
(define ready (channels/new))
(define go (channels/new))
(define (worker) (set-tls! slot (box (list 'worker 'private 'state))) (channel/send (channels-sender ready) 'parked) (channel/recv (channels-receiver go)) (unbox (get-tls slot)))
(define t (spawn-native-thread worker))
(channel/recv (channels-receiver ready))
(churn 40)
(channel/send (channels-sender go) 'go)
(verif-emit (thread-join! t))""", ['(L y:"worker" y:"private" y:"state")']),
    ("k-box-on-stack-of-parked-thread", """(define ready (channels/new))
(define go (channels/new))
(define (worker) (let ((mine (box (list 'on 'worker 'stack)))) (channel/send (channels-sender ready) 'parked) (channel/recv (channels-receiver go)) (unbox mine)))
(define t (spawn-native-thread worker))
(channel/recv (channels-receiver ready))
(churn 40)
(channel/send (channels-sender go) 'go)
(verif-emit (thread-join! t))""", ['(L y:"on" y:"worker" y:"stack")']),
]


def history_templates(r):
    """Root class g': a global shadowed by a later definition (another unit) but still referenced by an
    old closure."""
    a, b = r.randint(1, 50), r.randint(51, 99)
    n = r.choice([5, 20])
    return [("g-shadowed-global", [
        PRELUDE + "\n(define cell (box %d))\n(define (read-old) (unbox cell))" % a,
        "(define cell (box %d))\n(churn %d)" % (b, n),
        "(churn %d)\n(verif-emit (list (read-old) (unbox cell)))" % n,
        "(set-box! cell 7)\n(churn %d)\n(verif-emit (list (read-old) (unbox cell)))" % n])]


CADENCES = [{"gc_every": 1}, {"gc_every": 2}, {"gc_every": 3}, {"gc_every": 7}]


def main(tier):
    rep = core.Reporter("C04", tier)
    rounds = 12 if tier == "quick" else 1500
    r = core.rng("C04")
    progs = []
    seen = set()
    for _ in range(rounds):
        for name, text in templates(r):
            units = [PRELUDE + "\n" + text]
            if units[0] in seen:
                continue
            seen.add(units[0])
            progs.append((name, units))
        for name, units in history_templates(r):
            progs.append((name, units))
    refs = []
    for name, units in progs:
        m = R.Machine(fuel=2000000)
        try:
            ref = [m.run_unit(R.parse(u)) for u in units]
        except Exception:
            ref = None
        refs.append(ref)
    keep = [(p, rf) for p, rf in zip(progs, refs) if rf is not None and all(x[0] == "ok" for x in rf)]
    for name, text, emits in FIXED:
        keep.append(((name, [PRELUDE + "\n" + text]), [("ok", emits, "")]))
    rep.note("programs_rejected_by_the_reference", len(progs) - len(keep))
    rep.coverage["rule"] = (
        "root-placement templates (see module docstring) over boxes / mutable vectors / mutable struct fields / assigned "
        "captured variables x seeded payloads and churn sizes, each run under forced full collections at every 1st, 2nd, 3rd, "
        "7th allocation and with seeded jitter, JIT on/off, top level and module; distinct by (program, cadence, config); "
        "non-trivial = at least 10 forced full collections ran while the program executed")
    configs = [("top", {}, {}), ("top-nojit", {"STEEL_JIT": "false"}, {}), ("module", {}, {"as_module": True})]
    cads = CADENCES + [{"gc_every": 5, "gc_jitter": core.seed() * 7919 + 1}]
    if tier == "quick":
        cads = [CADENCES[0], CADENCES[2], cads[-1]]
    cads = cads + [{"natural": True}]
    classes_seen = {}
    total_forced = 0
    total_natural = 0
    for cname, env, opts in configs:
        for cad in cads:
            cases = []
            for i, ((name, units), ref) in enumerate(keep):
                if opts.get("as_module") and len(units) > 1:
                    continue
                c = {"id": "p%d" % i, "units": units, "timeout_ms": 120000, "events": False, "no_vals": True}
                c.update(opts)
                if cad.get("natural"):
                    c["units"] = [u.replace(PRELUDE, PRELUDE_NATURAL) for u in units]
                else:
                    c.update(cad)
                cases.append(c)
            results, meta = core.run_cases(cases, env=env, tag="c04")
            for e in meta["harness_errors"]:
                rep.inconclusive_note("harness: %s" % e)
            for i, ((name, units), ref) in enumerate(keep):
                res = results.get("p%d" % i)
                if res is None:
                    continue
                rep.count()
                cnt = res.get("counters") or {}
                forced = cnt.get("FORCED_COLLECTIONS", 0)
                total_forced += forced
                if cad.get("natural"):
                    total_natural += cnt.get("FULL_COLLECTIONS", 0)
                    if cnt.get("FULL_COLLECTIONS", 0) >= 1:
                        rep.nontrivial((units[-1], "natural", cname))
                if forced >= 10:
                    rep.nontrivial((units[-1], json.dumps(cad), cname))
                    classes_seen[name] = classes_seen.get(name, 0) + 1
                replay = {"config": env, "opts": dict(opts, **cad), "units": units}
                where = "%s cadence=%s" % (cname, json.dumps(cad))
                if cnt.get("FREED_SLOT_ACCESS"):
                    ev = [e for e in (res.get("events") or []) if e[2] == "!freed-slot-access"]
                    frame = ""
                    if ev and ev[0][5]:
                        frame = ev[0][5].split(" | ")[0]
                    rep.violation("C04 %s: access (%s) through a live handle to a slot the collector freed" % (name, frame or "?"),
                                  "%s events=%s\nprogram:\n%s" % (where, json.dumps(ev[:2])[:900], "\n;; next unit\n".join(units)[-900:]), replay)
                    continue
                if cnt.get("ACCOUNTING_MISMATCH"):
                    rep.add("accounting_mismatch_events_left_to_C19", cnt["ACCOUNTING_MISMATCH"])
                if res["status"] != "ok":
                    rep.violation("C04 %s: engine process %s under forced collections" % (name, res["status"]),
                                  "%s stderr=%s" % (where, res.get("stderr_tail", "")[-300:]), replay)
                    continue
                for k, u in enumerate(res["units"]):
                    got = c01.observe(u)
                    if got != ref[k]:
                        kind = c01.diff_kind(ref[k], got, u)
                        poison = "poison" in json.dumps(got)
                        attr = c01.attribute(R.parse(units[k]), kind, u, bool(opts.get("as_module")))
                        sig = "C04 %s" % attr if attr else "C04 %s: %s%s" % (name, "a freed (poisoned) slot is read: " if poison else "", kind)
                        rep.violation(sig, "%s %s\nprogram:\n%s" % (where, c01.first_diff(ref[k], got), units[k][-900:]), replay)
                        break
                else:
                    if len(rep.coverage["samples"]) < 6 and name not in [s["root_class"] for s in rep.coverage["samples"]]:
                        rep.sample({"root_class": name, "config": cname, "cadence": cad, "forced_full_collections": forced,
                                    "program": units[-1][len(PRELUDE):][:500], "emitted": ref[-1][1]})
    rep.note("root_classes_observed_across_>=10_collections", classes_seen)
    rep.note("forced_full_collections_total", total_forced)
    rep.note("natural_full_collections_total", total_natural)
    missing = sorted(set(n for (n, _), _ in keep) - set(classes_seen))
    if missing:
        rep.inconclusive_note("root classes never observed across >= 10 collections: %s" % missing, floor=len(missing) > 3)
    rep.assumptions += ["forced collections run through the engine's own mark / stop-the-world code (hook H-gc) and then poison the "
                        "slots left unreachable", "of the host's ways to root a value only #%closure->boxed-function is exercised (RootedSteelVal of an embedding program is not)"]
    return rep.finish()


def replay(path):
    d = json.load(open(path))["replay"]
    c = {"id": "r", "units": d["units"], "timeout_ms": 120000, "events": True, "no_vals": True}
    c.update(d.get("opts") or {})
    res, _ = core.run_cases([c], env=d.get("config"), shards=1)
    r = res["r"]
    print(json.dumps(r, indent=1)[:4000])
    m = R.Machine(fuel=2000000)
    ref = [m.run_unit(R.parse(u)) for u in d["units"]]
    bad = r["status"] != "ok" or (r.get("counters") or {}).get("FREED_SLOT_ACCESS") or \
        [c01.observe(u) for u in r["units"]] != ref
    if bad:
        print("VIOLATION property=C04 replay=%s" % path)
        return 1
    return 0
