"""C05 — shared-value reference counting is sound under every thread interleaving.

The history driver /verif/rcmiri runs seeded histories of new / clone / drop / move-to-another-thread
/ get_mut / make_mut / try_unwrap / strong_count / explicit merge / thread exit over up to three
threads against steel-rc built from /repo, with a shadow model:
  * sequential mode (one operation at a time, exact shadow count per object): get_mut / make_mut /
    try_unwrap may grant exclusive access only when the shadow count is 1; a payload is never destroyed
    while its shadow count is positive; canary intact on every access;
  * concurrent mode: canaries on every access, every payload destroyed exactly once at the end;
  * race mode: a targeted schedule family - the owner drops its last owner-side reference (the merge
    compare-exchange loop) while another thread, holding a reference it cloned itself, clones and drops
    in a tight loop; per round: payload intact at every access, destroyed exactly once.
  * mrace mode: the second targeted family - the owner runs the *explicit merge* of a queued object while
    another thread drops the last reference it cloned itself (released by a go-flag, random short delay);
    same per-round assertions.
Every native history runs twice: plainly (real allocator) and with steel-rc's quarantine hook (`verif` feature,
RCMIRI_QUARANTINE=1: a destroyed box is poisoned and kept, and increment / decrement / has_unique_ref / try_unwrap /
explicit_merge / the owner-field stores / destroy report by name when they are handed a destroyed box).
Oracles: the driver's own assertions natively (millions of operations, OS scheduling), and **Miri**
(undefined behaviour, use-after-free and data-race detection, many scheduler seeds) on short histories."""
import json
import os
import re
import subprocess
import time

from . import core

CRATE = os.path.join(core.VERIF, "rcmiri")


def build_native():
    env = dict(os.environ, CARGO_NET_OFFLINE="true", CARGO_TARGET_DIR=os.path.join(core.BUILD, "rcmiri"))
    src = os.path.join(core.REPO, "Cargo.lock")
    if not os.path.exists(os.path.join(CRATE, "Cargo.lock")) and os.path.exists(src):
        import shutil
        shutil.copy(src, os.path.join(CRATE, "Cargo.lock"))
    p = subprocess.run(["cargo", "build", "--release", "--offline"], cwd=CRATE, env=env, stdout=subprocess.PIPE, stderr=subprocess.STDOUT, text=True)
    if p.returncode != 0:
        core.log(p.stdout[-3000:])
        raise core.BuildError("rcmiri build failed")
    return os.path.join(core.BUILD, "rcmiri", "release", "rcmiri")


def classify(line):
    m = re.match(r"destroyed box handed to (.*?) \[\d+ time", line)
    if m:
        return "a destroyed box is handed to %s" % m.group(1)
    if "never destroyed" in line:
        return "a payload is never destroyed although every reference was dropped (leak)"
    if "granted exclusive access" in line or "mutated payload" in line or "moved payload" in line:
        return "exclusive access granted while other references exist"
    if "destroyed while" in line or "after its destructor ran" in line or "corrupted" in line:
        return "payload destroyed or corrupted while a reference exists"
    if "more than once" in line:
        return "payload destroyed more than once"
    return line[:80]


def run_native(binp, seeds, hist, ops, mode, quarantine=False):
    procs = []
    env = dict(os.environ, RCMIRI_QUARANTINE="1" if quarantine else "0")
    for s in seeds:
        procs.append((s, subprocess.Popen([binp, str(s), str(hist), str(ops), mode], stdout=subprocess.PIPE, stderr=subprocess.PIPE, text=True, env=env)))
    out = []
    for s, p in procs:
        try:
            so, se = p.communicate(timeout=1800)
        except subprocess.TimeoutExpired:
            p.kill()
            so, se = "", "timeout"
        out.append((s, p.returncode, so, se))
    return out


def main(tier):
    rep = core.Reporter("C05", tier)
    binp = build_native()
    nseeds, hist, ops = (16, 150, 300) if tier == "quick" else (64, 2000, 400)
    miri_seeds, miri_hist, miri_ops = (8, 2, 40) if tier == "quick" else (256, 3, 50)
    rep.coverage["rule"] = (
        "seeded histories over {new, clone, drop, move to another thread, get_mut, make_mut, try_unwrap, strong_count, "
        "explicit merge, thread exit} on <= 3 threads and a growing set of objects; sequential mode with an exact shadow "
        "count, concurrent mode with schedule-independent assertions, race mode (owner's last drop against a foreign clone/drop loop), mrace mode (owner's explicit merge of a queued object against a foreign last drop); natively (OS schedules) and under Miri (many scheduler "
        "seeds); distinct by (seed, mode); non-trivial = the history produced objects that crossed threads")
    base = core.seed() * 1000
    total_ops = 0
    objects = 0
    race_rounds = 1000 if tier == "quick" else 3000
    for mode in ("seq", "conc", "race", "mrace"):
        # race / mrace: 20 helper threads x race_rounds rounds of "owner's last drop / owner's explicit merge while
        # another thread drops"; the window is a few instructions wide, so the number of rounds is what buys detection
        h_, o_ = (20, race_rounds) if mode in ("race", "mrace") else (hist, ops)
        seeds = [base + i for i in range(nseeds)]
        # every history twice: with steel-rc's quarantine hook (a destroyed box is kept and poisoned; every entry
        # point that is handed one reports its name - deterministic, names the site) and plainly (the real
        # allocator; the oracle is the driver's assertions and the allocator's own consistency checks)
        res = [(True,) + r for r in run_native(binp, seeds, h_, o_, mode, quarantine=True)]
        res += [(False,) + r for r in run_native(binp, seeds, h_, o_, mode)]
        sites_of = {}
        for quarantine, s, rc, so, se in res:
            rep.count()
            m = re.search(r"RCMIRI seed=\d+ histories=\d+ ops=(\d+) objects=(\d+) violations=(\d+)", so)
            replay = {"argv": [str(s), str(h_), str(o_), mode], "env": {"RCMIRI_QUARANTINE": "1" if quarantine else "0"}}
            if quarantine:
                sites_of[s] = sorted(set(re.findall(r"RCVIOLATION destroyed box handed to (.*?) \[", so)))
                rep.add("quarantine_runs", 1)
                rep.add("destroyed_box_reports", len(sites_of[s]))
            if m:
                total_ops += int(m.group(1))
                objects += int(m.group(2))
                rep.nontrivial((s, mode, quarantine))
            kinds = {}
            for line in so.splitlines():
                if line.startswith("RCVIOLATION "):
                    k = classify(line[12:])
                    kinds.setdefault(k, line[12:])
            for k, ex in kinds.items():
                rep.violation("C05 %s" % k, "mode=%s seed=%d example: %s" % (mode, s, ex), replay)
            if not m:
                pm = re.search(r"panicked at ([^\n:]+):\d+:\d+:\n([^\n]*)", se)
                if pm:
                    rep.violation("C05 driver run dies: panic at %s: %s" % (pm.group(1).split("crates/")[-1], pm.group(2)[:70]),
                                  "mode=%s seed=%d stderr=%s" % (mode, s, se[-300:]), replay)
                elif se == "timeout":
                    rep.inconclusive_note("native run timed out (seed %d, %s)" % (s, mode))
                elif mode == "seq" and not quarantine and sites_of.get(s):
                    # a sequential history is deterministic: the quarantine run of the same history has already
                    # named (and reported, above) the destroyed box this run trips over in the real allocator
                    rep.add("plain_seq_crashes_attributed_by_quarantine_run", 1)
                else:
                    rep.violation("C05 driver run dies with exit status %s (memory corruption?) in %s mode" % (rc, mode), "mode=%s seed=%d stderr=%s" % (mode, s, se[-300:]), replay)
    rep.note("native_operations", total_ops)
    rep.note("native_objects", objects)
    # Miri
    env = dict(os.environ, CARGO_NET_OFFLINE="true")
    env["MIRIFLAGS"] = "-Zmiri-many-seeds=0..%d -Zmiri-disable-isolation" % miri_seeds
    t0 = time.time()
    for mode in ("seq", "conc", "race", "mrace"):
        cmd = ["cargo", "+nightly", "miri", "run", "--offline", "--target-dir", os.path.join(core.BUILD, "rcmiri-miri"), "--",
               str(core.seed()), str(miri_hist), str(miri_ops if mode not in ("race", "mrace") else 6), mode, "tolerate-leaks"]
        try:
            p = subprocess.run(cmd, cwd=CRATE, env=env, stdout=subprocess.PIPE, stderr=subprocess.PIPE, text=True, timeout=3000)
        except subprocess.TimeoutExpired:
            rep.inconclusive_note("Miri run timed out (%s)" % mode)
            continue
        runs = len(re.findall(r"RCMIRI seed=", p.stdout))
        rep.add("miri_executions", runs)
        rep.count(runs)
        ub = re.findall(r"error: Undefined Behavior: ([^\n]*)", p.stderr)
        race = re.findall(r"error: Undefined Behavior: Data race[^\n]*", p.stderr)
        blocks = p.stderr.split("error: Undefined Behavior: ")[1:]
        for line in sorted(set(ub)):
            where = re.search(r"--> ([^\n:]+):\d+", p.stderr)
            mine = [b for b in blocks if b.startswith(line)]
            if line.startswith("Data race") and mine and all("Option<steel_rc::ThreadId>>" in b for b in mine):
                # root cause rather than the thread names / access kinds Miri happens to report first
                rep.violation("C05 Miri: Data race detected between (N) non-atomic accesses to RcWord::thread_id on thread `unnamed-N` and another thread",
                              "mode=%s %s\n%s" % (mode, line, mine[0][:1500]), {"miri": cmd, "flags": env["MIRIFLAGS"]})
                continue
            rep.violation("C05 Miri: %s" % re.sub(r"alloc\d+|0x[0-9a-f]+|\d+", "N", line)[:100],
                          "mode=%s at %s\n%s" % (mode, where.group(1) if where else "?", p.stderr[-1500:]), {"miri": cmd, "flags": env["MIRIFLAGS"]})
        for line in p.stdout.splitlines():
            if line.startswith("RCVIOLATION "):
                rep.violation("C05 %s" % classify(line[12:]), "under Miri, mode=%s: %s" % (mode, line[12:]), {"miri": cmd})
        if runs == 0 and not ub:
            if "panicked at" in p.stderr:
                pm = re.search(r"panicked at ([^\n:]+):\d+:\d+:\n([^\n]*)", p.stderr)
                rep.violation("C05 driver run dies: panic at %s: %s" % (pm.group(1).split("crates/")[-1], pm.group(2)[:70]), "under Miri (%s)" % mode, {"miri": cmd})
            else:
                rep.inconclusive_note("Miri produced no executions (%s): %s" % (mode, p.stderr[-300:]))
    rep.note("miri_wall_s", round(time.time() - t0, 1))
    if len(rep.coverage["samples"]) < 2:
        rep.sample({"native": "rcmiri %d %d %d seq|conc" % (base, hist, ops), "operations": total_ops, "objects": objects})
        rep.sample({"miri": "MIRIFLAGS=-Zmiri-many-seeds=0..%d cargo +nightly miri run -- %d %d %d seq|conc" % (miri_seeds, core.seed(), miri_hist, miri_ops)})
    rep.assumptions += ["schedules are sampled (OS scheduling natively, Miri's seeded scheduler), not enumerated",
                        "strong_count is documented as approximate and is exercised but not asserted"]
    if total_ops < 10000:
        rep.inconclusive_note("fewer than 10000 native operations", floor=True)
    return rep.finish()


def replay(path):
    d = json.load(open(path))["replay"]
    if "argv" in d:
        binp = build_native()
        p = subprocess.run([binp] + d["argv"], stdout=subprocess.PIPE, stderr=subprocess.PIPE, text=True, env=dict(os.environ, **d.get("env", {})))
        print(p.stdout[-2000:], p.stderr[-1000:])
        if p.returncode != 0:
            print("VIOLATION property=C05 replay=%s" % path)
            return 1
    return 0
