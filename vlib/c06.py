"""C06 — earlier definitions keep their meaning across any evaluation history.

Differential runtime monitoring over long evaluation histories on ONE engine: seeded histories of
top-level units (define / redefine / set! / calls / units failing at run time / units rejected at
compile time), with old functions kept alive through containers and called again after every few
units.  The binding model is executed by the reference machine (vlib.schemeref.Machine.run_unit):
global references of a unit are resolved to the cells in force for that unit, a later define of a
bound name makes a new cell, set! writes the shared cell, a unit rejected at compile time changes
nothing, a unit failing at run time keeps the effects before the failure.  Hundreds of shadowings of a
few names make the engine recycle global slots; H-slot (freed-slot access) is armed throughout."""
import json

from . import core, schemeref as R
from . import c01

S = R.Sym


class HistGen:
    def __init__(self, r):
        self.r = r
        self.fn_defined = set()
        self.var_defined = set()
        self.keep_defined = False
        self.kept = 0
        self.ops = set()
        self.structs = False

    def fname(self):
        return "f%d" % self.r.randint(0, 4)

    def vname(self):
        return "v%d" % self.r.randint(0, 2)

    def body(self, self_name):
        r = self.r
        parts = [str(r.randint(0, 9)), "x"]
        vs = sorted(self.var_defined)
        fs = sorted(self.fn_defined - {self_name})
        if vs and r.random() < 0.7:
            parts.append(r.choice(vs))
        if fs and r.random() < 0.6:
            parts.append("(%s %d)" % (r.choice(fs), r.randint(0, 3)))
        e = "(+ %s)" % " ".join(parts)
        if self.ops and r.random() < 0.4:
            # call through a global that is bound to a *native* procedure (and may be set! later)
            e = "(%s %s %d)" % (r.choice(sorted(self.ops)), e, r.randint(1, 3))
        k = r.random()
        if fs and k < 0.15:
            return "(%s %s)" % (r.choice(fs), e)          # tail call of another global
        if vs and k < 0.3:
            v = r.choice(vs)
            return "(begin (set! %s (+ %s 1)) %s)" % (v, v, e)   # assigns a global from inside
        if vs and k < 0.4:
            return "(let ((t %s)) (if (> t 1000000) 0 %s))" % (r.choice(vs), e)
        if fs and k < 0.5:
            return "(car (map %s (list %s)))" % (r.choice(fs), e)  # global pushed as a value
        if k < 0.62:
            # an inline lambda (lifted to a hidden global of its own by the compiler) that refers to globals
            g_ = r.choice(fs) if fs and r.random() < 0.7 else None
            v_ = r.choice(vs) if vs and r.random() < 0.6 else None
            inner = "(+ y %d%s%s)" % (r.randint(0, 9), " (%s y)" % g_ if g_ else "", " " + v_ if v_ else "")
            return "(car (map (lambda (y) %s) (list %s)))" % (inner, e)
        return e

    def unit(self):
        r = self.r
        k = r.random()
        if k < 0.06:
            n = "op%d" % r.randint(0, 1)
            nat = r.choice(["+", "*", "-", "max", "min"])
            if n in self.ops and r.random() < 0.6:
                return "set!-native", "(set! %s %s)" % (n, nat)
            self.ops.add(n)
            return "define-native", "(define %s %s)" % (n, nat)
        if 0.27 < k < 0.30 and self.fn_defined:
            # a dispatch table: a global bound to a *container* of closures that call other globals, and a dispatcher
            # compiled against it; table, dispatcher and the helpers are all redefined again and again later on
            t = "tbl%d" % r.randint(0, 1)
            dn = "d%d" % r.randint(0, 1)
            fs = sorted(self.fn_defined)
            entries = ["(lambda (x) (%s (+ x %d)))" % (r.choice(fs), r.randint(0, 5)) for _ in range(r.randint(2, 3))]
            if self.var_defined and r.random() < 0.5:
                entries.append("(lambda (x) (+ x %s))" % r.choice(sorted(self.var_defined)))
            shape = r.choice(["list", "vector", "hash"])
            if shape == "list":
                tdef, ref = "(list %s)" % " ".join(entries), "(list-ref %s (modulo i %d))" % (t, len(entries))
            elif shape == "vector":
                tdef, ref = "(vector %s)" % " ".join(entries), "(vector-ref %s (modulo i %d))" % (t, len(entries))
            else:
                tdef = "(hash %s)" % " ".join("%d %s" % (j, e_) for j, e_ in enumerate(entries))
                ref = "(hash-ref %s (modulo i %d))" % (t, len(entries))
            self.fn_defined.add(dn)
            self.tables = getattr(self, "tables", set()) | {t}
            return "define-dispatch-table", "(define %s %s)\n(define (%s i) ((%s) i))" % (t, tdef, dn, ref)
        if k < 0.30 or not self.fn_defined:
            n = self.fname()
            u = "(define (%s x) %s)" % (n, self.body(n))
            self.fn_defined.add(n)
            return "define-fn", u
        if k < 0.42 or not self.var_defined:
            n = self.vname()
            self.var_defined.add(n)
            return "define-var", "(define %s %d)" % (n, r.randint(0, 50))
        if k < 0.52:
            return "set!", "(set! %s %d)" % (r.choice(sorted(self.var_defined)), r.randint(0, 50))
        if k < 0.60:
            f = r.choice(sorted(self.fn_defined))
            if not self.keep_defined:
                self.keep_defined = True
                self.kept = 1
                return "keep", "(define keep (list %s))" % f
            self.kept += 1
            return "keep", "(set! keep (cons %s keep))" % f
        if k < 0.64 and self.keep_defined:
            # keep through a closure / vector / hash instead of a plain list
            f = r.choice(sorted(self.fn_defined))
            self.kept += 1
            return "keep", r.choice(["(set! keep (cons (lambda (y) (%s y)) keep))" % f,
                                     "(set! keep (cons (vector-ref (vector %s) 0) keep))" % f,
                                     "(set! keep (cons (hash-ref (hash 'k %s) 'k) keep))" % f,
                                     # many instances of ONE lambda (same function id), each capturing a different old function
                                     "(set! keep (cons (vf-wrap %s) keep))" % f,
                                     "(set! keep (cons (vf-wrap %s) keep))" % f,
                                     "(set! keep (cons (vf-wrap2 %s %d) keep))" % (f, r.randint(0, 9))])
        if k < 0.70:
            # a unit that fails at run time after a definition: the definition stays
            n = self.vname()
            self.var_defined.add(n)
            return "fail-runtime", "(define %s %d)\n(verif-emit 'before-failure)\n(car (vector->list (vector)))\n(verif-emit 'not-reached)" % (n, r.randint(0, 50))
        if k < 0.75:
            # rejected at compile time: nothing of it may happen
            n = self.vname()
            return "fail-compile", "(define %s %d)\n(verif-emit 'never)\n(this-name-is-not-bound-%d 1)" % (n, r.randint(100, 200), r.randint(0, 99))
        if k < 0.80:
            return "set!-fn", "(set! %s (lambda (x) (* x %d)))" % (r.choice(sorted(self.fn_defined)), r.randint(2, 5))
        return "call", self.probe()

    def probe(self):
        r = self.r
        fs = sorted(self.fn_defined)
        calls = ["(verif-emit (%s %d))" % (f, r.randint(0, 3)) for f in r.sample(fs, min(len(fs), 3))]
        if self.var_defined:
            calls.append("(verif-emit (list %s))" % " ".join(sorted(self.var_defined)))
        if self.keep_defined:
            calls.append("(verif-emit (map (lambda (f) (f 1)) keep))")
        return "\n".join(calls)


def gen_history(r, nunits):
    g = HistGen(r)
    # closure factories that are never redefined: every closure they return is an instance of the same lambda
    units = [("define-factory", "(define (vf-wrap h) (lambda (y) (h y)))\n(define (vf-wrap2 h k) (lambda (y) (+ (h y) k)))")]
    for i in range(nunits):
        kind, u = g.unit()
        units.append((kind, u))
        if i % 7 == 6:
            units.append(("probe", g.probe()))
    units.append(("probe", g.probe()))
    return units


def gen_reload_scenario(r, n):
    """The same small script (a constant and a function with an inline lambda) is reloaded n times; every version of the
    function is kept under a name of its own and called again later, in between batches of unrelated definitions - the
    way an embedding program reloads a user script.  (The recycler's threshold wraps after ~700 shadowings.)"""
    hof = r.choice(["(map (lambda (x) (+ (* x 3) %d)) xs)", "(filter (lambda (x) (> (+ x %d) 2)) xs)",
                    "(map (lambda (x) (+ x limit %d)) xs)", "(let ((f (lambda (x) (- x %d)))) (map f xs))"])
    period = r.choice([20, 25, 40])
    units = []
    for i in range(n):
        units.append(("reload", "(define limit 10)\n(define (scale xs) %s)" % (hof % i)))
        units.append(("keep-version", "(define keep-%d scale)" % i))
        if i % period == period - 1:
            for k in range(r.choice([10, 30])):
                units.append(("filler", "(define (w-%d-%d) (list %d %d))" % (i, k, i, k)))
            back = list(range(max(0, i - 60), i + 1))
            units.append(("probe", "\n".join("(verif-emit (keep-%d (list 1 2 3)))" % j for j in back)))
    return units


def gen_dispatch_scenario(r, fillers):
    """Handlers, a table of closures calling them (list / vector / hash / nested / captured by a closure / in a struct field)
    and dispatchers compiled against the table; then handlers, table and constants are all redefined, and hundreds of
    unrelated definitions follow: the *old* dispatchers (still bound) must keep calling the old table's closures and these
    the old handlers."""
    units = [("define-fn", "(define (on-start) 'start-v1)"), ("define-fn", "(define (on-stop x) (list 'stop-v1 x))"),
             ("define-var", "(define limit 10)"), ("define-struct", "(struct vf-holder (items))")]
    e = ["(lambda () (on-start))", "(lambda () (on-stop 1))", "(lambda () limit)"]
    shape = r.choice(["list", "vector", "hash", "nested", "closure", "struct"])
    if shape == "list":
        t, get = "(list %s)" % " ".join(e), "(list-ref table i)"
    elif shape == "vector":
        t, get = "(vector %s)" % " ".join(e), "(vector-ref table i)"
    elif shape == "hash":
        t, get = "(hash 0 %s 1 %s 2 %s)" % tuple(e), "(hash-ref table i)"
    elif shape == "nested":
        t, get = "(list (vector %s %s) (hash 'k (list %s)))" % tuple(e), "(if (< i 2) (vector-ref (car table) i) (car (hash-ref (car (cdr table)) 'k)))"
    elif shape == "closure":
        t, get = "(let ((items (list %s))) (lambda (i) (list-ref items i)))" % " ".join(e), "(table i)"
    else:
        t, get = "(vf-holder (list %s))" % " ".join(e), "(list-ref (vf-holder-items table) i)"
    units += [("define-dispatch-table", "(define table %s)" % t), ("define-fn", "(define (dispatch i) (%s))" % get)]
    probe = "\n".join("(verif-emit (dispatch %d))" % i for i in range(3)) + "\n(verif-emit (list (on-start) (on-stop 2) limit))"
    units.append(("probe", probe))
    units += [("define-fn", "(define (on-start) 'start-v2)"), ("define-fn", "(define (on-stop x) 'stop-v2)"), ("define-var", "(define limit 20)"),
              ("define-dispatch-table", "(define table (list (lambda () 'other-table)))"), ("probe", probe)]
    for i in range(1, fillers + 1):
        units.append(("define-var", "(define v %d)" % i))
        if i % 50 == 0:
            for k in range(20):
                units.append(("filler", "(define (w-%d-%d) (list %d %d))" % (i, k, i, k)))
            units.append(("probe", probe))
    return units


def reference_history(units):
    m = R.Machine(fuel=400000)
    out = []
    for kind, text in units:
        forms = R.parse(text)
        if kind == "fail-compile":
            out.append(("err", [], ""))
            continue
        try:
            out.append(m.run_unit(forms))
        except (R.OutOfFuel, R.Unsupported, RecursionError):
            return None
    return out


def main(tier):
    rep = core.Reporter("C06", tier)
    nh, nu = (48, 260) if tier == "quick" else (1200, 900)
    r = core.rng("C06")
    hists = []
    for k in range(2 if tier == "quick" else 10):
        units = gen_reload_scenario(r, 900)
        ref = reference_history(units)
        if ref is not None:
            hists.append((units, ref))
    for k in range(6 if tier == "quick" else 60):
        units = gen_dispatch_scenario(r, r.choice([450, 700]))
        ref = reference_history(units)
        if ref is not None:
            hists.append((units, ref))
    nscen = len(hists)
    rep.note("scenario_histories", nscen)
    for units, ref in hists:
        bad_probe = [u for (kind, u), o in zip(units, ref) if kind == "probe" and o[0] != "ok"]
        if bad_probe:
            # a scenario whose probes fail in the reference observes nothing (the first version of the dispatch scenario
            # called the result of the table's closure and every probe was an error on both sides)
            rep.inconclusive_note("a scenario history's probe fails in the reference: %s" % bad_probe[0][:120], floor=True)
            break
    nlong = 3 if tier == "quick" else 12
    for i in range(nh + nlong):
        # a few *long* histories: the global-slot recycler's threshold (100, 200, .. 800, then 100 again) wraps only after
        # several hundred shadowings, and some of its states are only reached then
        units = gen_history(r, (nu if i % 3 else nu // 4) if i < nh else 2600)
        ref = reference_history(units)
        if ref is not None:
            hists.append((units, ref))
    rep.coverage["rule"] = (
        "seeded histories of %d..%d top-level units on one engine over 5 function names and 3 variable names (so every "
        "name is shadowed tens to hundreds of times): define/redefine functions whose bodies call, tail-call, push and "
        "assign other globals, define/set! variables, set! of function names, old closures kept alive in a list through "
        "closures / vectors / hash maps and called again, units failing at run time after a definition, units rejected "
        "at compile time, probes after every 7 units; JIT on and off; distinct by history text; non-trivial = the history "
        "contains >= 1 redefinition of a name that an older kept function uses" % (nu // 4, nu))
    kinds = {}
    for units, _ in hists:
        for k, _u in units:
            kinds[k] = kinds.get(k, 0) + 1
    rep.note("units_by_kind", kinds)
    for cname, env in (("default", {}), ("nojit", {"STEEL_JIT": "false"})):
        cases = [{"id": "h%d" % i, "units": [u for _, u in units], "timeout_ms": 120000, "events": False}
                 for i, (units, _) in enumerate(hists)]
        results, meta = core.run_cases(cases, env=env, tag="c06")
        for e in meta["harness_errors"]:
            rep.inconclusive_note("harness: %s" % e)
        recycled = 0
        minimised = 0
        for i, (units, ref) in enumerate(hists):
            res = results.get("h%d" % i)
            if res is None:
                continue
            rep.nontrivial(tuple(u for _, u in units))
            cnt = res.get("counters") or {}
            recycled += cnt.get("SLOTS_RECYCLED", 0)
            if cnt.get("FREED_SLOT_ACCESS"):
                rep.violation("C06 access to a heap slot the collector / slot recycler had freed",
                              "config=%s events=%s" % (cname, json.dumps(res.get("events"))[:600]),
                              {"config": env, "units": [u for _, u in units]})
            us = res["units"]
            bad = None
            for k, (kind, text) in enumerate(units):
                rep.count()
                if k >= len(us):
                    bad = (k, "engine process %s" % res["status"], None)
                    break
                got = c01.observe(us[k])
                if us[k].get("panics"):
                    bad = (k, "engine panics (%s)" % core.panic_sig(tuple(us[k]["panics"][0])), got)
                    break
                if got != ref[k]:
                    bad = (k, None, got)
                    break
            if bad is None:
                if len(rep.coverage["samples"]) < 3:
                    rep.sample({"config": cname, "units": len(units), "first_units": [u for _, u in units[:6]],
                                "last_probe": units[-1][1][:300], "last_probe_observed": c01.observe(us[-1])[1][:4]})
                continue
            k, why, got = bad
            kind = units[k][0]
            exp = ref[k]
            why = why or c01.diff_kind(exp, got, us[k])
            # minimise: the shortest prefix-preserving sub-history that still diverges at its last unit
            # (the recycler already runs a few times while the engine boots: compare with the first unit)
            recycled_by_now = (us[min(k, len(us) - 1)].get("rr", 0) if us else 0) > (us[0].get("rr", 0) if us else 0)
            if recycled_by_now:
                small = units[max(0, k - 6):k + 1]     # needs the long history by nature
            else:
                minimised += 1
                small = minimise(units[:k + 1], env) if minimised <= 4 else units[max(0, k - 6):k + 1]
            if recycled_by_now:
                # the engine's global-slot recycler has run before this unit
                sig_kind = "an older function or global misbehaves after the global-slot recycler has run: %s" % why.split(" (")[0]
            else:
                sig_kind = classify(small, why)
            rep.violation("C06 %s" % sig_kind,
                          "config=%s diverges at unit #%d (%s): %s\nexpected=%s\nobserved=%s\nminimised history:\n%s" % (
                              cname, k, kind, why, exp, got, "\n;; ---- next unit\n".join(u for _, u in small)),
                          {"config": env, "units": [u for _, u in small], "kinds": [kk for kk, _ in small]})
        rep.note("slots_recycled_%s" % cname, recycled)
    rep.assumptions += ["the binding model of vlib.schemeref.Machine.run_unit is the reading of the property's statement",
                        "units never forward-reference a name (re)defined later in the same unit"]
    if len(hists) < nh // 2:
        rep.inconclusive_note("only %d histories accepted by the reference" % len(hists), floor=True)
    return rep.finish()


def well_formed(units):
    forms = []
    for kind, text in units:
        if kind != "fail-compile":
            forms.extend(R.parse(text))
    return c01.static_ok(forms)


def diverges(units, env):
    if not well_formed(units):
        return None
    ref = reference_history(units)
    if ref is None:
        return None
    res, _ = core.run_cases([{"id": "x", "units": [u for _, u in units], "timeout_ms": 120000}], env=env, shards=1, tag="c06m")
    r = res.get("x")
    if r is None:
        return None
    us = r["units"]
    for k in range(len(units)):
        if k >= len(us) or us[k].get("panics") or c01.observe(us[k]) != ref[k]:
            return k
    return -1


def minimise(units, env, budget=30):
    """Drop units (never the last) while the history still diverges at its last unit."""
    units = list(units)
    i = 0
    chunk = max(1, len(units) // 2)
    while chunk >= 1 and budget > 0:
        i = 0
        progressed = False
        while i < len(units) - 1 and budget > 0:
            cand = units[:i] + units[i + chunk:] if i + chunk < len(units) else units[:i] + units[-1:]
            if len(cand) == len(units):
                break
            budget -= 1
            d = diverges(cand, env)
            if d is not None and d == len(cand) - 1:
                units = cand
                progressed = True
            else:
                i += chunk
        if not progressed:
            chunk //= 2
    return units


def classify(small, why):
    kinds = [k for k, _ in small]
    text = "\n".join(u for _, u in small)
    if "fail-compile" in kinds[:-1] or (kinds and kinds[-1] == "fail-compile"):
        if "free identifier" in why.lower() or "FreeIdentifier" in why or "raises" in why or "void" in why or "wrong value" in why:
            return "a unit rejected at compile time that (re)defines a bound name leaves that name unbound or altered (%s)" % why.split(" (")[0]
    return "%s after %s" % (why, "+".join(sorted(set(kinds[:-1]))) or "nothing")


def replay(path):
    d = json.load(open(path))["replay"]
    units = list(zip(d["kinds"], d["units"]))
    k = diverges(units, d.get("config"))
    print("diverges at", k)
    if k is not None and k >= 0:
        print("VIOLATION property=C06 replay=%s" % path)
        return 1
    return 0
