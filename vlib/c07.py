"""C07 — no input can crash the host; errors are returned and leave the engine usable.

Monitors: the harness's panic hook (a caught panic is still a violation), the child's exit status
(signal / abort / stack overflow), and a *probe*: the same fixed probe program is evaluated before
and after the hostile input on the same engine and must give identical results (earlier definitions
intact, handler / continuation round trips work, operand and frame stacks as before)."""
import json
import re

from . import core, textgen

SETUP = """(define vf-keep-1 (lambda (x) (* x 2)))
(define vf-keep-2 (vector 1 2 3))
(define vf-keep-3 (box 10))
(define (vf-keep-4 . xs) (length xs))
(define vf-twice 1)"""

SETUP2 = "(define vf-twice 2)\n(define (vf-get-twice) vf-twice)"

PROBE = """(#%prim.list vf-twice (vf-get-twice) (vf-keep-1 21) (#%prim.vector-ref vf-keep-2 1) (#%prim.unbox vf-keep-3) (vf-keep-4 1 2 3) (#%verif-stack-depth)
  ((lambda (f) (f 1)) (lambda (x) (#%prim.+ x 1)))
  (with-handler (lambda (e) 'handled) (#%prim.car 5))
  (call/cc (lambda (k) (#%prim.+ 1 (k 7))))
  (let loop ((i 0) (acc 0)) (if (#%prim.= i 10) acc (loop (#%prim.+ i 1) (#%prim.+ acc i)))))"""

DENY = re.compile(
    r"^(#|%|##)|^Engine::|command|process|child-|kill|wait|spawn|thread|channel|receivers|lock-|mutex|stdin|read-line|"
    r"^read|read-dir|read-to-string|read-char|read-byte|read-string|read-bytes|peek|open-input-file|open-output-file|delete-|"
    r"create-directory|copy-directory|rename-file|canonicalize|change-current|set-current-dir|current-directory|"
    r"set-env|env-var|glob|file|path-exists|is-dir|is-file|fs-metadata|^load|^eval|expand|emit-|run!|^exit|emergency|sleep|"
    r"block-on|poll|join!|futures|local-executor|^which$|dylib|breakpoint|inspect|dump-profiler|callstack|debug-globals|"
    r"set-test-mode|stdout|with-std|with-current-dir|with-env|without-env|with-cleared|time/|instant|system-time|"
    r"local-time|naive-|current-(milli|second|inexact)|duration|steel-home|target-arch|platform|current-os|"
    r"command-line|memory-address|active-object|interner|tcp|http|git|module|require|verif|set-piped|"
    r"would-block|^gc|collect|make-tls|get-tls|call-with-input-file|call-with-output-file|with-input-from|with-output-to-file|"
    r"^input$|^displayln!|dynamic-wind-test|^test|^run-|^main$|path->|parent-name|steel/|^assert|stream|in-range|"
    r"^make-parameter|current-input-port|current-output-port|current-error-port")

SIZELIKE = re.compile(r"make-|range|repeat|list-tail|take|drop|pad|shift|expt|chunks|^iota|^string\*|vector-fill|copy|"
                      r"push-n|^list-ref|^nth|exp$|build-|replicate|^factorial|^fib|exact-integer-sqrt|^sqrt|^log|"
                      r"substring|string-ref|vector-ref|bytes-ref|^even-rec|^odd-rec")

POOL = {
    "int-small": ["0", "1", "-1", "2", "7", "255", "10", "15", "16", "17", "19", "20", "31", "32", "35", "36", "37", "64", "127", "128", "256"],
    "int-edge": ["4611686018427387903", "4611686018427387904", "9223372036854775807", "-9223372036854775808",
                 "9223372036854775808", "18446744073709551616", "-18446744073709551617", "2147483648", "-2147483649",
                 "1000000000000000000000000000000"],
    "rat": ["1/2", "-7/3", "2147483647/2147483646", "-2147483648/3", "123456789012345678901234567890/7"],
    "flo": ["0.0", "(- 0.0)", "1.5", "-2.5", "+inf.0", "-inf.0", "+nan.0", "1e308", "5e-324", "9007199254740993.0"],
    "char": ["#\\a", "#\\space", "#\\nul", "(integer->char 1114111)", "#\\λ", "#\\newline"],
    "str": ['""', '"a"', '"hello world"', '"λx.名前\\n\\t"', '(make-string 300 #\\z)', '"12"', '"-1/2"', '"#t"'],
    "sym": ["'a", "'list", "(string->symbol \"\")", "(string->symbol \"a b\")"],
    "bool": ["#t", "#f"],
    "nil": ["'()"],
    "list": ["'(1 2 3)", "'(a (b (c)))", "(list 1 \"x\" #\\c 2.5)", "'((a . 1) (b . 2))", "(list (list))"],
    "pair": ["(cons 1 2)", "(cons 1 (cons 2 3))"],
    "vec": ["(vector)", "(vector 1 2 3)", "(vector 'a (vector 'b))", "(make-vector 5 0)"],
    "ivec": ["(immutable-vector)", "(immutable-vector 1 2 3)"],
    "bytes": ["(bytes)", "(bytes 0 127 255)"],
    "hash": ["(hash)", "(hash 'a 1 'b 2)", "(hash \"k\" (list 1 2) 3 4)"],
    "set": ["(hashset)", "(hashset 1 2 3)"],
    "box": ["(box 1)", "(box (box '()))"],
    "void": ["void", "(void)"],
    "proc0": ["(lambda () 1)"],
    "proc1": ["(lambda (x) x)", "car", "not"],
    "proc2": ["(lambda (x y) (list x y))", "+", "cons"],
    "procN": ["(lambda xs xs)", "list"],
    "cont": ["(call/cc (lambda (k) k))"],
    "port": ["(open-input-string \"abc (d e)\")", "(open-output-string)"],
    "struct": ["(vf-point 1 2)", "(vf-mpoint 3 4)"],
    "err": ["(with-handler (lambda (e) e) (error \"boom\" 1))"],
    "eof": ["(eof-object)"],
    "cyclic": ["(let ((b (box 0))) (set-box! b b) b)", "(let ((v (vector 1 2))) (vector-set! v 0 v) v)"],
}
KINDS = sorted(POOL)

BUILTIN_SETUP = SETUP + """
(struct vf-point (x y) #:transparent)
(struct vf-mpoint (x y) #:mutable)"""


def list_functions():
    import subprocess, os
    binp = core.build()
    d = core.scratch_dir("globals")
    outp = os.path.join(d, "g.jsonl")
    subprocess.run([binp, "globals", "--out", outp], check=True, stdout=subprocess.DEVNULL, stderr=subprocess.DEVNULL,
                   timeout=120)
    names = []
    for line in open(outp):
        g = json.loads(line)
        n = g["name"]
        if DENY.search(n) or not re.match(r"^[-A-Za-z0-9!?*+/<>=_.:~^&$]+$", n):
            continue
        names.append((n, g["kind"]))
    import shutil
    shutil.rmtree(d, ignore_errors=True)
    return sorted(set(names))


def gen_call(r, name):
    arity = r.choice([0, 1, 1, 1, 2, 2, 2, 3, 3, 4])
    kinds = [r.choice(KINDS) for _ in range(arity)]
    if r.random() < 0.35:
        # homogeneous tuples reach past the first type check: all numbers / all strings+chars / all lists
        fam = r.choice([["int-small", "int-small", "int-small", "int-edge", "rat", "flo"], ["str", "str", "char", "sym"],
                        ["list", "nil", "pair", "vec"], ["hash", "set", "int-small", "sym"]])
        kinds = [r.choice(fam) for _ in range(arity)]
    args = []
    for k in kinds:
        if k == "int-edge" and SIZELIKE.search(name):
            k = "int-small"
        a = r.choice(POOL[k])
        if SIZELIKE.search(name) and k == "flo" and a in ("1e308", "+inf.0"):
            a = "1.5"
        args.append(a)
    form = r.random()
    if form < 0.8 or arity == 0:
        src = "(%s %s)" % (name, " ".join(args))
    elif form < 0.9:
        src = "(apply %s (list %s))" % (name, " ".join(args))
    else:
        src = "((lambda (f) (f %s)) %s)" % (" ".join(args), name)
    return kinds, src


def split_args(text):
    """top-level argument texts of a call body (balanced parentheses, strings)"""
    out, depth, cur, instr, i = [], 0, "", False, 0
    while i < len(text):
        ch = text[i]
        if instr:
            cur += ch
            if ch == "\\" and i + 1 < len(text):
                cur += text[i + 1]
                i += 1
            elif ch == '"':
                instr = False
        elif ch == '"':
            instr = True
            cur += ch
        elif ch == "(":
            depth += 1
            cur += ch
        elif ch == ")":
            depth -= 1
            cur += ch
        elif ch == " " and depth == 0:
            if cur:
                out.append(cur)
            cur = ""
        else:
            cur += ch
        i += 1
    if cur:
        out.append(cur)
    return out if depth == 0 and not instr else None


def probe_ok(o, ref):
    return o is not None and o.get("ok") and o.get("vals") == ref


def crash_sig(o, src=""):
    """Name the root cause of a process death (None = allocation failure, not attributable)."""
    st = o["died"]
    err = o.get("stderr", "")
    if "memory allocation of" in err:
        return None  # allocation failure under the address-space cap: inconclusive for that input
    m = re.search(r"VHPANIC ([^\n|]+?):\d+ \| ([^\n]*)", err)
    if m:
        msg = re.sub(r"\d+", "N", m.group(2))
        msg = re.sub(r"SteelErr \{.*", "SteelErr{..}", msg)
        return "abort (cannot unwind) after panic at %s: %s" % (m.group(1), msg[:70])
    if "stack overflow" in err or "has overflowed its stack" in err:
        if "(set-box! b b)" in src or "(vector-set! v 0 v)" in src:
            return "native stack overflow with a cyclic box/vector argument"
        return "native stack overflow"
    return "process %s" % st


def part_builtins(rep, per_fn):
    fns = list_functions()
    rep.note("builtins_enumerated", len(fns))
    import os
    only = os.environ.get("VERIF_C07_ONLY")       # focus the builtin workload (used for replays / experiments)
    if only:
        fns = [f for f in fns if re.search(only, f[0])]
    r = core.rng("C07", "builtins")
    units = []
    meta = []
    for name, kind in fns:
        for _ in range(per_fn):
            kinds, src = gen_call(r, name)
            units.append(src)
            meta.append((name, kinds))
    # interleave a probe every 150 units so that corruption is localised
    outs = core.run_units(units, per=150, tag="c07b", prelude=BUILTIN_SETUP, timeout_ms=25000, case_opts={"mem_mb": 4096})
    seen_fn = set()
    pending_signals = []
    outcomes = {"ok": 0, "err": 0, "panic": 0, "died": 0, "timeout": 0, "oom": 0}
    for (name, kinds), src, o in zip(meta, units, outs):
        if o is None:
            rep.add("not_run")
            continue
        rep.count()
        seen_fn.add(name)
        rep.nontrivial((name, tuple(kinds)))
        if "died" in o:
            if o["died"] == "timeout":
                outcomes["timeout"] += 1
                continue  # a long-running builtin on a hostile argument: not a crash (C17/C18 look at hangs)
            sig = crash_sig(o, src)
            if sig is None:
                outcomes["oom"] += 1
                continue
            outcomes["died"] += 1
            pending_signals.append((name, src, o, sig))
            continue
            rep.violation("C07 %s" % sig, "call=%s stderr=%s" % (src, o.get("stderr", "")[-300:]),
                          {"kind": "builtin", "src": src})
        elif o.get("panic"):
            outcomes["panic"] += 1
            pending_signals.append((name, src, o, "panic at %s" % core.panic_sig(o["panic"])))
        elif o.get("ok"):
            outcomes["ok"] += 1
            if len(rep.coverage["samples"]) < 3:
                rep.sample({"builtin_call": src, "result": o["vals"][-1][:80] if o["vals"] else None})
        else:
            outcomes["err"] += 1
            if len(rep.coverage["samples"]) < 6 and outcomes["err"] < 4:
                rep.sample({"builtin_call": src, "error_kind": o.get("kind")})
    # adaptive second phase: a call that SUCCEEDED with a small integer in a non-first position shows that the builtin
    # takes an integer parameter there (radix, index, count, width ...): that position is swept over 0..40 with the
    # other arguments fixed, which walks over the parameter's validity boundary wherever it lies
    sweep_src, sweep_meta = [], []
    done = set()
    # (so that finding such a parameter does not depend on the random tuples, every builtin is also probed on a small
    #  grid: representative first arguments x the integers 2 and 10 in second / third position)
    grid_src, grid_meta = [], []
    firsts = [("int-small", "255"), ("int-small", "19"), ("str", '"hello world"'), ("list", "'(1 2 3)"), ("vec", "(vector 1 2 3)"), ("bytes", "(bytes 0 127 255)")]
    for name, kind in fns:
        if SIZELIKE.search(name):
            continue
        for fk, fa in firsts:
            for k in ("2", "10"):
                grid_src.append("(%s %s %s)" % (name, fa, k))
                grid_meta.append((name, [fk, "int-small"]))
            grid_src.append("(%s %s 1 2)" % (name, fa))
            grid_meta.append((name, [fk, "int-small", "int-small"]))
    grid_outs = core.run_units(grid_src, per=150, tag="c07g", prelude=BUILTIN_SETUP, timeout_ms=25000, case_opts={"mem_mb": 4096})
    for (name, kinds), src, o in zip(grid_meta, grid_src, grid_outs):
        if o is None:
            continue
        rep.count()
        if "died" in o:
            if o["died"] != "timeout":
                sig = crash_sig(o, src)
                if sig is not None:
                    pending_signals.append((name, src, o, sig))
        elif o.get("panic"):
            pending_signals.append((name, src, o, "panic at %s" % core.panic_sig(o["panic"])))
    for (name, kinds), src, o in list(zip(grid_meta, grid_src, grid_outs)) + list(zip(meta, units, outs)):
        if name in done or o is None or not o.get("ok") or not src.startswith("(%s " % name) or SIZELIKE.search(name):
            continue
        positions = [j for j, k in enumerate(kinds) if k == "int-small" and j >= 1]
        if not positions:
            continue
        parts = split_args(src[len(name) + 2:-1])
        if parts is None or len(parts) != len(kinds):
            continue
        done.add(name)
        j = positions[-1]
        for v in range(0, 41):
            sweep_src.append("(%s %s)" % (name, " ".join(str(v) if i == j else a for i, a in enumerate(parts))))
            sweep_meta.append((name, kinds))
    rep.note("builtins_with_an_integer_parameter_swept", len(done))
    if sweep_src:
        outs_s = core.run_units(sweep_src, per=150, tag="c07s", prelude=BUILTIN_SETUP, timeout_ms=25000, case_opts={"mem_mb": 4096})
        for (name, kinds), src, o in zip(sweep_meta, sweep_src, outs_s):
            if o is None:
                continue
            rep.count()
            if "died" in o:
                if o["died"] == "timeout":
                    continue
                sig = crash_sig(o, src)
                if sig is not None:
                    pending_signals.append((name, src, o, sig))
            elif o.get("panic"):
                pending_signals.append((name, src, o, "panic at %s" % core.panic_sig(o["panic"])))
    # every death / panic of a builtin call is re-run without native code generation: natively compiled
    # library code that runs on after a failed type check corrupts memory, and the symptom (signal,
    # abort, panic in an unrelated crate) is arbitrary -- the root cause is identified by this test
    if pending_signals:
        outs2 = core.run_units([src for _, src, _, _ in pending_signals], per=1, tag="c07j", prelude=BUILTIN_SETUP,
                               timeout_ms=25000, env={"STEEL_JIT": "false"})
        kinds = dict(fns)
        for (name, src, o, sig0), o2 in zip(pending_signals, outs2):
            fine_without_jit = o2 is not None and "died" not in o2 and not o2.get("panic")
            if fine_without_jit:
                what = "stdlib closure" if kinds.get(name) == "closure" else "builtin"
                sig = "native-code-only failure (fine with STEEL_JIT=false) in %s applied to ill-typed arguments" % what
            elif sig0.startswith("process "):
                sig = "builtin %s: %s" % (name, sig0)
            else:
                sig = sig0
            rep.violation("C07 %s" % sig, "call=%s symptom=%s stderr=%s" % (src, sig0, o.get("stderr", "")[-300:]),
                          {"kind": "builtin", "src": src})
    rep.note("builtin_call_outcomes", outcomes)
    rep.note("builtins_called", len(seen_fn))


# ------------------------------------------------------------------------------------------------
# ill-typed operands inside *compiled functions* (the operators that have their own opcode / native helper)

INLINE_OPS = [("+", 2), ("-", 2), ("*", 2), ("/", 2), ("<", 2), ("<=", 2), (">", 2), (">=", 2), ("=", 2), ("-", 1), ("+", 3), ("*", 3),
              ("car", 1), ("cdr", 1), ("cons", 2), ("null?", 1), ("not", 1), ("box", 1), ("unbox", 1), ("set-box!", 2), ("vector-ref", 2),
              ("vector-set!", 3), ("list-ref", 2), ("eq?", 2), ("equal?", 2), ("first", 1), ("rest", 1), ("cadr", 1), ("length", 1),
              ("quotient", 2), ("modulo", 2), ("remainder", 2), ("hash-ref", 2), ("string-length", 1), ("string-append", 2),
              ("vector-length", 1), ("list-tail", 2), ("append", 2), ("reverse", 1), ("abs", 1), ("exact->inexact", 1), ("zero?", 1),
              ("even?", 1), ("add1", 1), ("sub1", 1), ("number->string", 1), ("symbol->string", 1), ("char->integer", 1), ("apply", 2)]
ILL_VALUES = ["'a", '"s"', "#\\c", "(list)", "(list 1 2)", "(vector 1 2)", "1.5", "1/2", "100000000000000000000", "(void)", "#t", "(box 1)",
              "(hash)", "0", "-1", "9223372036854775807", "(lambda (q) q)", "(cons 1 2)"]
LITS = ["1", "0", "2", "-1"]


def gen_compiled_programs(r, n):
    """n module texts, each: a function applying one inlinable operator to its parameter(s) in some operand position and
    code shape, a compiled caller that traps errors, and calls with every ill-typed value."""
    out = []
    shapes = ["direct", "if-test", "loop", "let", "nested", "tail-after-effect", "via-map", "via-apply", "second-param", "late-param", "closure"]
    for i in range(n):
        op, ar = INLINE_OPS[i % len(INLINE_OPS)]
        shape = shapes[(i // len(INLINE_OPS)) % len(shapes)] if i < len(INLINE_OPS) * len(shapes) else r.choice(shapes)
        pos = r.randrange(ar)
        lit = r.choice(LITS)
        args = [lit] * ar
        args[pos] = "x"
        if ar >= 2 and r.random() < 0.3:
            args[(pos + 1) % ar] = "x"
        call = "(%s %s)" % (op, " ".join(args))
        params = "x"
        actual = lambda v: v
        if shape == "direct":
            body = call
        elif shape == "if-test":
            body = "(if %s 'yes 'no)" % call
        elif shape == "loop":
            body = "(let loop ((i 0) (acc x)) (if (< i 3) (loop (+ i 1) %s) acc))" % call.replace("x", "acc")
        elif shape == "let":
            body = "(let ((t %s)) (list t t))" % call
        elif shape == "nested":
            body = "(list %s %s)" % (call, "(%s %s)" % (op, " ".join(args[::-1])))
        elif shape == "tail-after-effect":
            body = "(begin (set! cf-count (+ cf-count 1)) %s)" % call
        elif shape == "via-map":
            body = "(map (lambda (y) %s) (list x x))" % call.replace("x", "y")
        elif shape == "via-apply":
            body = "(apply (lambda (y z) %s) (list x 1))" % call.replace("x", "y")
        elif shape == "second-param":
            params = "w x"
            body = "(list w %s)" % call
            actual = lambda v: "7 " + v
        elif shape == "late-param":
            params = "p0 p1 p2 p3 p4 x"
            body = "(list p4 %s)" % call
            actual = lambda v: "0 1 2 3 4 " + v
        else:  # closure
            body = "((lambda () %s))" % call
        L = ["(define cf-count 0)", "(define (cf %s) %s)" % (params, body),
             "(define (cf-try %s) (with-handler (lambda (e) 'err) (cf %s)))" % (params, params)]
        vals = r.sample(ILL_VALUES, 8)
        for v in vals:
            L.append("(verif-emit (cf-try %s))" % actual(v))
        L.append("(verif-emit 'survived)")
        L.append("(cf %s)" % actual(r.choice(vals)))     # the error (if any) propagates to the host
        out.append(("%s/%d pos %d %s" % (op, ar, pos, shape), "\n".join(L)))
    return out


def part_compiled(rep, n):
    r = core.rng("C07", "compiled")
    progs = gen_compiled_programs(r, n)
    outcomes = {"value": 0, "error": 0}
    for mode, copts, env in (("module", {"as_module": True}, None), ("top-level", {}, None), ("module, JIT off", {"as_module": True}, {"STEEL_JIT": "false"})):
        cases = []
        for i, (desc, src) in enumerate(progs):
            c = {"id": "c%d" % i, "units": [src], "timeout_ms": 30000, "mem_mb": 4096}
            c.update(copts)
            cases.append(c)
        results, m = core.run_cases(cases, env=env, tag="c07c")
        for e in m["harness_errors"]:
            rep.inconclusive_note("harness: %s" % e)
        for i, (desc, src) in enumerate(progs):
            res = results.get("c%d" % i)
            if res is None:
                continue
            rep.count()
            rep.nontrivial((desc, mode))
            op = desc.split("/")[0]
            if res["status"] not in ("ok", "timeout"):
                sig = crash_sig({"died": res["status"], "stderr": res.get("stderr_tail", "")}, src)
                if sig:
                    rep.violation("C07 compiled function applying %s to an ill-typed operand (%s): %s" % (op, mode, sig),
                                  "program=%s\nstderr=%s" % (src, res.get("stderr_tail", "")[-300:]), {"kind": "compiled", "src": src, "opts": copts, "env": env})
                continue
            u = (res["units"] or [{}])[0]
            if u.get("panics"):
                rep.violation("C07 compiled function applying %s to an ill-typed operand (%s): panic at %s" % (op, mode, core.panic_sig(tuple(u["panics"][0]))),
                              "program=%s" % src, {"kind": "compiled", "src": src, "opts": copts, "env": env})
                continue
            em = u.get("emits") or []
            outcomes["error"] += sum(1 for e in em if e == 'y:"err"')
            outcomes["value"] += sum(1 for e in em if e not in ('y:"err"', 'y:"survived"'))
            if 'y:"survived"' not in em and res["status"] == "ok" and u.get("kind") not in (None, "FreeIdentifier", "BadSyntax", "ArityMismatch"):
                # an error escaped the handler of cf-try: the remaining calls were not made (still no crash)
                rep.add("compiled_programs_ended_early")
    rep.note("compiled_function_call_outcomes", outcomes)


def part_texts(rep, n):
    r = core.rng("C07", "texts")
    cases = []
    meta = {}
    for i in range(n):
        k = r.random()
        hostile = []
        for _ in range(1 if k < 0.7 else r.randint(2, 4)):
            cls, t = textgen.gen_text(r)
            if r.random() < 0.25:
                t = r.choice(textgen.SEED_PROGRAMS)
                cls = "valid"
            hostile.append((cls, t))
        if r.random() < 0.08:
            # a unit that redefines an already twice-defined global and is rejected at compile time
            hostile.insert(r.randrange(len(hostile) + 1), ("redefine-then-free-identifier",
                           "(define vf-twice %d) (this-is-not-bound-%d)" % (r.randint(3, 9), r.randint(0, 99))))
        cid = "t%d" % i
        units = [SETUP, SETUP2, PROBE]
        for cls, t in hostile:
            units.append(t)
            units.append(PROBE)
        meta[cid] = hostile
        cases.append({"id": cid, "units": units, "timeout_ms": 30000})
    results, m = core.run_cases(cases, tag="c07t")
    for e in m["harness_errors"]:
        rep.inconclusive_note("harness: %s" % e)
    outcomes = {"ok": 0, "err": 0}
    probes = 0
    for cid, hostile in meta.items():
        res = results.get(cid)
        if res is None:
            continue
        us = res["units"]
        if len(us) < 3 or not us[2].get("ok"):
            rep.inconclusive_note("probe failed on a fresh engine (%s)" % cid)
            continue
        ref = us[2]["vals"]
        for j, (cls, t) in enumerate(hostile):
            ui = 3 + 2 * j
            if ui >= len(us):
                if res["status"] != "ok" and ui == len(us):
                    rep.count()
                    if res["status"] == "timeout":
                        rep.add("text_timeouts")
                    else:
                        o = {"died": res["status"], "stderr": res.get("stderr_tail", "")}
                        sig = crash_sig(o, t)
                        if sig:
                            rep.violation("C07 text: %s" % sig, "text=%r stderr=%s" % (t[:300], o["stderr"][-300:]),
                                          {"kind": "text", "units": [x for _, x in hostile[:j + 1]]})
                break
            u = us[ui]
            rep.count()
            rep.nontrivial((cls, t))
            if u.get("panics"):
                rep.violation("C07 text: panic at %s" % core.panic_sig(u["panics"][0]), "text=%r" % t[:300],
                              {"kind": "text", "units": [x for _, x in hostile[:j + 1]]})
                break  # engine not trusted after a panic
            outcomes["ok" if u.get("ok") else "err"] += 1
            if ui + 1 < len(us):
                pr = us[ui + 1]
                probes += 1
                redefines = re.search(r"define-syntax|\(define\s+\(?(let|if|lambda|loop|with-handler|call/cc|define)\b", t)
                if not (pr.get("ok") and pr.get("vals") == ref) and not redefines:
                    if pr.get("panics"):
                        rep.violation("C07 probe after text: panic at %s" % core.panic_sig(pr["panics"][0]),
                                      "text=%r" % t[:300], {"kind": "text", "units": [x for _, x in hostile[:j + 1]]})
                        break
                    rep.violation("C07 engine unusable after %s text" % ("failing" if not u.get("ok") else "accepted"),
                                  "text=%r probe=%s expected=%s err=%s" % (t[:300], pr.get("vals"), ref, pr.get("err")),
                                  {"kind": "text", "units": [x for _, x in hostile[:j + 1]]})
                elif len(rep.coverage["samples"]) < 9 and not u.get("ok") and len(t) < 120:
                    rep.sample({"text": t, "class": cls, "result": "Err " + str(u.get("kind")), "probe_after": "identical"})
    rep.note("text_outcomes", outcomes)
    rep.note("probes_compared", probes)


def main(tier):
    rep = core.Reporter("C07", tier)
    ntext, per_fn = (12000, 40) if tier == "quick" else (300000, 1500)
    import os
    if os.environ.get("VERIF_C07_PER_FN"):
        per_fn = int(os.environ["VERIF_C07_PER_FN"])
        ntext = 200
    rep.coverage["rule"] = (
        "texts: seeded hostile sources (bytes, Unicode, token soup, balanced soup, mutated programs, literal stress, "
        "deep nesting, valid programs), singly and as 2-4 unit histories on one engine, each followed by the probe; "
        "builtins: every procedure bound in a fresh engine except a deny-list of externally effectful/blocking ones, "
        "called with tuples drawn from a typed pool (every value kind x boundary magnitudes), directly / via apply / "
        "via a parameter; compiled: functions that apply each operator with its own opcode / native helper to an ill-typed "
        "run-time operand in 11 code shapes, compiled as a module (native code), at the top level and with the JIT off, called "
        "from a compiled caller; distinct = by text or by (procedure, argument kinds) or by (operator, position, shape, mode)")
    part_texts(rep, ntext)
    part_compiled(rep, 1100 if tier == "quick" else 20000)
    part_builtins(rep, per_fn)
    rep.assumptions += ["allocation-failure aborts under the 4-6 GB address-space cap and time-outs are not counted as "
                        "crashes (inconclusive for that input)",
                        "size-like arguments of allocation/iteration builtins are kept small by the generator"]
    if rep.coverage["evaluations"] < 5000:
        rep.inconclusive_note("fewer than 5000 inputs observed", floor=True)
    return rep.finish()


def replay(path):
    d = json.load(open(path))["replay"]
    if d.get("kind") == "compiled":
        c = {"id": "r", "units": [d["src"]], "timeout_ms": 30000}
        c.update(d.get("opts") or {})
        res, _ = core.run_cases([c], env=d.get("env"), shards=1)
        r = res["r"]
        print(json.dumps(r, indent=1)[:3000])
        bad = r["status"] not in ("ok", "timeout") or any(u.get("panics") for u in r["units"])
    elif d.get("kind") == "builtin":
        outs = core.run_units([d["src"]], per=1, prelude=BUILTIN_SETUP, tag="c07r")
        print(outs[0])
        bad = outs[0] is None or "died" in outs[0] or outs[0].get("panic")
    else:
        units = [SETUP, SETUP2, PROBE]
        for t in d["units"]:
            units += [t, PROBE]
        res, _ = core.run_cases([{"id": "r", "units": units}], shards=1)
        r = res["r"]
        print(json.dumps(r, indent=1)[:3000])
        us = r["units"]
        bad = r["status"] != "ok" or any(u.get("panics") for u in us) or \
            any(us[k].get("vals") != us[2].get("vals") for k in range(4, len(us), 2))
    if bad:
        print("VIOLATION property=C07 replay=%s" % path)
        return 1
    return 0
