"""C08 — continuations, dynamic-wind and handlers restore the captured control state.

Template-driven differential monitoring: each template is a small control-flow scenario (escape,
re-entry N times, generator, backtracking, early exit from a library callback, invocation after the
extent, from a handler, from a wind thunk, errors across wind frames) instantiated with seeded
parameters and with the capture point placed in a seeded *context* (argument position with pending
temporaries, let binding, let body, library callback, inside with-handler, inside nested
dynamic-winds).  Every dynamic-wind thunk appends a unique id to a trace, so exactly-once and nesting
order are decided by comparing traces with the reference machine (vlib.schemeref), which implements
call/cc, dynamic-wind and with-handler directly on explicit continuation frames."""
import json

from . import core, schemeref as R
from . import c01

PRELUDE = """(define trace '())
(define (note x) (set! trace (cons x trace)))
(define (trace-out) (let ((t (reverse trace))) (set! trace '()) t))"""


def contexts(r):
    """Functions wrapping an expression E (which captures/uses a continuation) into a larger context."""
    a, b, c = r.randint(1, 9), r.randint(1, 9), r.randint(1, 9)
    return [
        ("plain", lambda e: e),
        ("argument-with-pending-temporaries", lambda e: "(+ %d (* %d 2) %s %d)" % (a, b, e, c)),
        ("list-argument", lambda e: "(car (cdr (list %d %s %d)))" % (a, e, b)),
        ("let-binding", lambda e: "(let ((p %d) (q %s)) (+ p q))" % (a, e)),
        ("let-body", lambda e: "(let ((p %d)) (+ p %s))" % (a, e)),
        ("let*-chain", lambda e: "(let* ((p %d) (q (+ p %s)) (s (* q 1))) s)" % (a, e)),
        ("map-callback", lambda e: "(car (map (lambda (z) (+ z %s)) (list %d)))" % (e, a)),
        ("foldl-callback", lambda e: "(foldl (lambda (z acc) (+ acc z %s)) 0 (list %d))" % (e, a)),
        ("inside-with-handler", lambda e: "(with-handler (lambda (err) -1) (+ %d %s))" % (a, e)),
        ("inside-dynamic-wind", lambda e: "(dynamic-wind (lambda () (note 'cin)) (lambda () (+ %d %s)) (lambda () (note 'cout)))" % (a, e)),
        ("inside-nested-winds", lambda e: "(dynamic-wind (lambda () (note 'o-in)) (lambda () (dynamic-wind (lambda () (note 'i-in)) (lambda () (+ %d %s)) (lambda () (note 'i-out)))) (lambda () (note 'o-out)))" % (a, e)),
        ("function-argument", lambda e: "((lambda (u v) (- v u)) %d %s)" % (a, e)),
        ("if-test", lambda e: "(if (> %s -1000) %d %d)" % (e, a, b)),
        ("begin-discarded-then-value", lambda e: "(begin %s %d)" % (e, a)),
        ("vector-element", lambda e: "(vector-ref (vector %d %s) 1)" % (a, e)),
    ]


def templates(r):
    n = r.randint(2, 5)
    v = r.randint(1, 20)
    w = r.randint(1, 20)
    cx = contexts(r)
    name, C = r.choice(cx)
    name2, C2 = r.choice(cx)
    T = []
    # 1 escape
    T.append(("escape/" + name, "(verif-emit %s)\n(verif-emit (trace-out))" % C("(call/cc (lambda (k) (* 10 (k %d))))" % v)))
    # 2 escape not taken
    T.append(("no-escape/" + name, "(verif-emit %s)\n(verif-emit (trace-out))" % C("(call/cc (lambda (k) (* 10 %d)))" % v)))
    # 3 re-entry N times inside one top-level form
    T.append(("reentry/" + name, """(define k-saved #f)
(define count 0)
(verif-emit (let ((r %s)) (set! count (+ count 1)) (if (< count %d) (k-saved (* count %d)) (list r count))))
(verif-emit (trace-out))""" % (C("(call/cc (lambda (k) (set! k-saved k) %d))" % v), n, w)))
    # 4 generator: produce list elements one at a time through two continuations
    T.append(("generator", """(define (make-gen lst)
  (define return #f)
  (define (gen)
    (call/cc (lambda (r)
      (set! return r)
      (for-each (lambda (x) (call/cc (lambda (next) (set! gen (lambda () (call/cc (lambda (r2) (set! return r2) (next #f))))) (return x)))) lst)
      (return 'done))))
  (lambda () (gen)))
(define g (make-gen (list %d %d %d)))
(verif-emit (let* ((a (g)) (b (g)) (c (g)) (d (g))) (list a b c d)))""" % (v, w, n)))
    # 5 backtracking (amb)
    T.append(("amb", """(define fail-stack '())
(define (fail) (if (null? fail-stack) (error "no more choices") (let ((back (car fail-stack))) (set! fail-stack (cdr fail-stack)) (back back))))
(define (amb choices) (let ((cc (call/cc (lambda (k) k)))) (if (null? choices) (fail) (let ((choice (car choices))) (set! choices (cdr choices)) (set! fail-stack (cons cc fail-stack)) choice))))
(verif-emit (let* ((a (amb (list 1 2 3 4 5 6 7))) (b (amb (list 1 2 3 4 5 6 7))) (c (amb (list 1 2 3 4 5 6 7)))) (if (not (= (* c c) (+ (* a a) (* b b)))) (fail) (list a b c))))"""))
    # 6 early exit from library callbacks
    for hof, call in (("map", "(map (lambda (x) (if (= x %d) (k (list 'found x)) (* x 2))) (list 1 2 3 4 5 6))"),
                      ("for-each", "(begin (for-each (lambda (x) (note x) (if (= x %d) (k 'stopped) x)) (list 1 2 3 4 5 6)) 'finished)"),
                      ("foldl", "(foldl (lambda (x acc) (if (= x %d) (k (list 'at acc)) (+ acc x))) 0 (list 1 2 3 4 5 6))"),
                      ("filter", "(filter (lambda (x) (if (= x %d) (k 'out) (odd? x))) (list 1 2 3 4 5 6))")):
        T.append(("early-exit-" + hof, "(verif-emit (call/cc (lambda (k) %s)))\n(verif-emit (trace-out))" % (call % r.randint(1, 7))))
    # 7 continuation invoked after its extent (same top-level form)
    T.append(("after-extent/" + name, """(define saved #f)
(define hits 0)
(define (capture) %s)
(verif-emit (let ((r (capture))) (set! hits (+ hits 1)) (if (< hits %d) (saved (+ r 1)) (list r hits))))
(verif-emit (trace-out))""" % (C("(call/cc (lambda (k) (set! saved k) %d))" % v), n)))
    # 8 invoked from inside a handler
    T.append(("from-handler/" + name, """(verif-emit (call/cc (lambda (k) (with-handler (lambda (e) (k (list 'handled %d))) %s))))
(verif-emit (trace-out))""" % (v, C("(car (vector->list (vector)))"))))
    # 9 dynamic-wind: normal, escape, error, order
    T.append(("wind-normal", """(verif-emit (dynamic-wind (lambda () (note 'in)) (lambda () (note 'body) %d) (lambda () (note 'out))))
(verif-emit (trace-out))""" % v))
    T.append(("wind-escape/" + name, """(verif-emit (call/cc (lambda (k) (dynamic-wind (lambda () (note 'in)) (lambda () %s) (lambda () (note 'out))))))
(verif-emit (trace-out))""" % C("(k %d)" % v)))
    T.append(("wind-error-to-outer-handler", """(verif-emit (with-handler (lambda (e) (note 'handler) 'recovered)
  (dynamic-wind (lambda () (note 'in1)) (lambda () (dynamic-wind (lambda () (note 'in2)) (lambda () (note 'body) (car (vector->list (vector)))) (lambda () (note 'out2)))) (lambda () (note 'out1)))))
(verif-emit (trace-out))"""))
    T.append(("wind-reentry*", """(define kk #f)
(define times 0)
(verif-emit (dynamic-wind (lambda () (note 'in)) (lambda () (let ((r (call/cc (lambda (k) (set! kk k) 0)))) (note (list 'body r)) r)) (lambda () (note 'out))))
(verif-emit (begin (set! times (+ times 1)) (if (< times %d) (kk times) (trace-out))))
(verif-emit (trace-out))""" % n))
    T.append(("wind-nested-escape-inner-only", """(verif-emit (dynamic-wind (lambda () (note 'o-in))
  (lambda () (+ 1 (call/cc (lambda (k) (dynamic-wind (lambda () (note 'i-in)) (lambda () (k %d)) (lambda () (note 'i-out)))))))
  (lambda () (note 'o-out))))
(verif-emit (trace-out))""" % v))
    # 10 escape from a wind *thunk*
    T.append(("escape-from-after-thunk", """(verif-emit (call/cc (lambda (k) (dynamic-wind (lambda () (note 'in)) (lambda () (note 'body) 1) (lambda () (note 'out) (k %d))))))
(verif-emit (trace-out))""" % v))
    # 11 handler inside loop with tail calls; locals as at capture, mutable state current
    T.append(("locals-and-state/" + name, """(define state 0)
(define again #f)
(define (run a)
  (let ((local (* a 2)))
    (let ((r %s))
      (set! state (+ state 1))
      (list local r state))))
(verif-emit (let ((x (run %d))) (if (< state %d) (again (+ state 100)) x)))
(verif-emit (trace-out))""" % (C("(call/cc (lambda (k) (set! again k) 0))"), v, n)))
    # 12 continuation as an ordinary procedure argument / stored in a container
    T.append(("stored-in-container", """(define box-k (box #f))
(define tries 0)
(verif-emit (let ((r (+ %d (call/cc (lambda (k) (set-box! box-k k) 0))))) (set! tries (+ tries 1)) (if (< tries %d) ((unbox box-k) tries) (list r tries))))""" % (v, n)))
    # 13 error raised inside a callback inside a handler, then normal continuation
    T.append(("handler-in-callback", """(verif-emit (map (lambda (x) (with-handler (lambda (e) (note (list 'caught x)) (* x -1)) (if (even? x) (car (vector->list (vector))) x))) (list 1 2 3 %d)))
(verif-emit (trace-out))""" % v))
    # 15 return/resume generator over a tree, driven from a loop: every (gen) call comes from the same call site at
    #    the same stack depth
    tree = r.choice(["(list (list 1 2) (list 3 (list 4 5)) 6)", "(list 1 (list 2 (list 3 (list 4))))", "(list (list (list %d)) %d)" % (v, w),
                     "(list %d %d %d %d)" % (v, w, n, v)])
    T.append(("generator-loop", """(define (tree-walk tree yield)
  (cond ((null? tree) 'skip)
        ((pair? tree) (tree-walk (car tree) yield) (tree-walk (cdr tree) yield))
        (else (yield tree))))
(define (make-gen tree)
  (define return #f)
  (define resume #f)
  (define (gen)
    (call/cc (lambda (r)
      (set! return r)
      (if resume
          (resume 'go)
          (begin (tree-walk tree (lambda (x) (call/cc (lambda (k) (set! resume k) (return x)))))
                 (return 'done))))))
  gen)
(define (collect g acc) (let ((v (g))) (if (equal? v 'done) (reverse acc) (collect g (cons v acc)))))
(verif-emit (collect (make-gen %s) '()))
(define (same-fringe? a b)
  (let ((ga (make-gen a)) (gb (make-gen b)))
    (let loop () (let ((x (ga)) (y (gb))) (cond ((not (equal? x y)) #f) ((equal? x 'done) #t) (else (loop)))))))
(verif-emit (same-fringe? %s (list 1 (list 2 3) 4)))""" % (tree, r.choice(["(list (list 1 2) (list 3 4))", "(list (list 1 2) (list 5 4))", tree]))))
    # 16 the before thunk is not part of the body's extent: an error in it must not make the after thunk run later
    T.append(("error-in-before-thunk/" + name, """(define (scenario)
  (call/cc (lambda (return)
    (with-handler (lambda (e) (note 'caught))
      (dynamic-wind (lambda () (note 'before) (car (vector->list (vector)))) (lambda () (note 'body)) (lambda () (note 'after))))
    %s)))
(verif-emit (scenario))
(verif-emit (trace-out))""" % C("(return %d)" % v)))
    # 17 a continuation captured inside the before thunk, re-entered once
    T.append(("capture-in-before-thunk", """(define k-in-before #f)
(define reentries 0)
(define (scenario)
  (dynamic-wind
    (lambda () (note 'before-start) (call/cc (lambda (k) (set! k-in-before k))) (note 'before-end))
    (lambda () (note 'body))
    (lambda () (note 'after)))
  (if (< reentries %d) (begin (set! reentries (+ reentries 1)) (k-in-before 'again)) (trace-out)))
(verif-emit (scenario))""" % r.randint(1, 3)))
    # 18 escape from the before thunk / error in the after thunk
    T.append(("escape-from-before-thunk", """(verif-emit (call/cc (lambda (k) (dynamic-wind (lambda () (note 'o-in)) (lambda () (dynamic-wind (lambda () (note 'in) (k %d)) (lambda () (note 'body) 1) (lambda () (note 'out)))) (lambda () (note 'o-out))))))
(verif-emit (trace-out))""" % v))
    T.append(("error-in-after-thunk", """(verif-emit (with-handler (lambda (e) (note 'handler) 'recovered) (dynamic-wind (lambda () (note 'o-in)) (lambda () (dynamic-wind (lambda () (note 'in)) (lambda () (note 'body) %d) (lambda () (note 'out) (car (vector->list (vector)))))) (lambda () (note 'o-out)))))
(verif-emit (trace-out))""" % v))
    # 19 parameterize across escape and re-entry, two levels
    T.append(("parameterize-reentry/" + name, """(define prm (make-parameter 'top))
(define pk #f)
(define ptimes 0)
(verif-emit (let ((r (parameterize ((prm 'outer)) (parameterize ((prm 'inner)) (let ((r %s)) (note (list 'body (prm) r)) r)))))
  (note (list 'outside (prm))) (set! ptimes (+ ptimes 1)) (if (< ptimes %d) (pk ptimes) (list r (trace-out)))))""" % (
        C("(call/cc (lambda (k) (set! pk k) 0))"), n)))
    T.append(("parameterize-escape/" + name, """(define prm (make-parameter 'top))
(verif-emit (list (call/cc (lambda (k) (parameterize ((prm 'outer)) (dynamic-wind (lambda () (note (list 'in (prm)))) (lambda () (parameterize ((prm 'inner)) %s)) (lambda () (note (list 'out (prm)))))))) (prm)))
(verif-emit (trace-out))""" % C("(k (prm))")))
    # 14 two contexts composed
    T.append(("composed/" + name + "/" + name2, "(verif-emit %s)\n(verif-emit (trace-out))" % C(
        "(call/cc (lambda (k1) %s))" % C2("(call/cc (lambda (k2) (if (> %d %d) (k1 %d) (k2 %d))))" % (v, w, v, w)))))
    return T


CONFIGS = [("top", {}, {}), ("module", {}, {"as_module": True}), ("top-nojit", {"STEEL_JIT": "false"}, {}),
           ("top-gc-every-1", {}, {"gc_every": 1, "no_vals": True}),
           ("top-gc-every-3-nojit", {"STEEL_JIT": "false"}, {"gc_every": 3, "no_vals": True})]


def main(tier):
    rep = core.Reporter("C08", tier)
    rounds = 40 if tier == "quick" else 3000
    r = core.rng("C08")
    progs = []
    seen = set()
    discarded = 0
    attempted = set()
    for _ in range(rounds):
        for name, text in templates(r):
            src = PRELUDE + "\n" + text
            if src in seen:
                continue
            seen.add(src)
            try:
                forms = R.parse(src)
                ref = R.reference(forms, fuel=300000)
            except Exception:
                ref = None
            attempted.add(name.split("/")[0])
            if ref is None:
                discarded += 1
                continue
            progs.append({"name": name, "src": R.program_source(forms), "forms": forms, "ref": ref})
    rep.note("programs_discarded_by_the_reference", discarded)
    rep.coverage["rule"] = (
        "templates x capture contexts x seeded parameters (see module docstring); kept when the reference machine gives the "
        "same observable result under both operand orders; distinct by source; non-trivial = the reference invoked >= 1 "
        "continuation, ran >= 1 handler, or entered >= 1 dynamic-wind")
    by_template = {}
    stats = {"cont_invocations": 0, "handlers_run": 0, "winds": 0}
    for p in progs:
        by_template[p["name"].split("/")[0]] = by_template.get(p["name"].split("/")[0], 0) + 1
        st = p["ref"]["stats"]
        for k in stats:
            stats[k] += st[k]
        if st["cont_invocations"] or st["handlers_run"] or st["winds"]:
            rep.nontrivial(p["src"])
    rep.note("programs_by_template", by_template)
    never = sorted(attempted - set(by_template))
    if never:
        # a template the reference never accepts observes nothing: say so instead of counting it as covered
        rep.inconclusive_note("templates never accepted by the reference: %s" % ", ".join(never), floor=True)
    rep.note("reference_totals", stats)
    for cname, env, opts in CONFIGS:
        cases = []
        for i, p in enumerate(progs):
            if opts.get("as_module") and "*" in p["name"]:
                # in a module the continuation of a top-level form includes the forms that follow it; templates
                # marked * re-enter a continuation from a *later* form and are pinned for top-level evaluation only
                continue
            c = {"id": "p%d" % i, "units": [p["src"]], "timeout_ms": 30000}
            c.update(opts)
            cases.append(c)
        cases_by_id = {c["id"]: c for c in cases}
        results, meta = core.run_cases(cases, env=env, tag="c08")
        for e in meta["harness_errors"]:
            rep.inconclusive_note("harness: %s" % e)
        for i, p in enumerate(progs):
            res = results.get("p%d" % i)
            if res is None:
                continue
            rep.count()
            exp = c01.expected(p["ref"])
            tname = p["name"]
            replay = {"config": env, "opts": opts, "src": p["src"], "expected": list(exp)}
            if (res.get("counters") or {}).get("FREED_SLOT_ACCESS"):
                rep.violation("C08 %s: access to a freed heap slot" % tname.split("/")[0], "config=%s events=%s\n%s" % (
                    cname, json.dumps(res.get("events"))[:400], p["src"]), replay)
            if res["status"] == "timeout":
                again = core.retry_alone(cases_by_id["p" + str(i)], env=env, tag="c08r")
                if again is not None and again["status"] == "ok":
                    rep.inconclusive_note("a time-out in the loaded batch was not reproduced alone (" + cname + ")")
                    res = again
            if res["status"] != "ok":
                kind = "does not terminate" if res["status"] == "timeout" else "engine process %s" % res["status"]
                rep.violation("C08 %s: %s" % (sig_name(tname), kind), "config=%s\n%s" % (cname, p["src"]), replay)
                continue
            u = res["units"][0]
            got = c01.observe(u)
            if got != exp:
                kind = c01.diff_kind(exp, got, u)
                if tname == "composed/inside-with-handler/inside-with-handler" and nested_handler_escape(p["src"], exp, got):
                    rep.violation(F02, "config=%s %s\nprogram:\n%s" % (cname, c01.first_diff(exp, got), p["src"]), replay)
                    continue
                rep.violation("C08 %s: %s" % (sig_name(tname), kind),
                              "config=%s %s\nprogram:\n%s" % (cname, c01.first_diff(exp, got), p["src"]), replay)
            elif len(rep.coverage["samples"]) < 6 and tname.split("/")[0] not in [s["template"].split("/")[0] for s in rep.coverage["samples"]]:
                rep.sample({"template": tname, "config": cname, "program": p["src"][len(PRELUDE):][:600], "emitted": exp[1]})
    rep.assumptions += ["vlib.schemeref implements call/cc, dynamic-wind (Dybvig's winders list) and with-handler as the reading of "
                        "the statement; continuations are only re-entered within the top-level form that captured them or a later "
                        "form of the same unit whose own continuation ends at the end of that form (pinned by probing)"]
    return rep.finish()


F02 = ("C08 F02 escaping from the body of a with-handler nested in another with-handler, through a continuation captured "
       "between the two, leaves the inner form's meta-continuation installed: the rest of the outer body runs twice")


def nested_handler_escape(src, exp, got):
    """The defect's own arithmetic: (with-handler H (+ A (call/cc (lambda (k1) (with-handler H (+ A ... (k1 V) ...))))))
    must yield A+V; with the stale meta-continuation the outer (+ A _) is applied a second time: 2A+V."""
    import re
    m = re.search(r"\(with-handler \(lambda \(err\) -1\) \(\+ (\d+) \(call/cc \(lambda \(k1\)", src)
    if not m or exp[0] != got[0] or len(exp[1]) != len(got[1]) or exp[1][1:] != got[1][1:]:
        return False
    a = int(m.group(1))
    try:
        return int(got[1][0][2:]) == int(exp[1][0][2:]) + a
    except ValueError:
        return False


def sig_name(tname):
    """template, and the capture context when it matters"""
    parts = tname.split("/")
    return parts[0] + ("" if len(parts) == 1 else " in context " + "/".join(parts[1:]))


def replay(path):
    d = json.load(open(path))["replay"]
    c = {"id": "r", "units": [d["src"]], "timeout_ms": 30000}
    c.update(d.get("opts") or {})
    res, _ = core.run_cases([c], env=d.get("config"), shards=1)
    r = res["r"]
    print(json.dumps(r, indent=1)[:3000])
    got = list(c01.observe(r["units"][0])) if r["status"] == "ok" and r["units"] else ["died"]
    print("expected", d["expected"])
    if got != d["expected"]:
        print("VIOLATION property=C08 replay=%s" % path)
        return 1
    return 0
