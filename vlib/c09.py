"""C09 — tail calls run in constant space at any iteration count.

Monitor: the hook builtin (#%verif-stack-depth) -> (frames operands) is sampled *inside the loop*
at three iterations (first, middle, last); no sample may exceed the first by more than a fixed slack
of 16 slots (one leaked slot per iteration would give n/2 and n).  The loop's result
is compared with its closed form, the child process must survive, and peak RSS at 10n iterations may
exceed peak RSS at n by at most a fixed slack.  Deep non-tail recursion must end in an error value."""
import json

from . import core

SAMPLER = """(define vf-samples '())
(define (vf-record!) (set! vf-samples (cons (#%verif-stack-depth) vf-samples)))
(define (vf-sample! i a b c)
  (if (= 0 (* (- i a) (- i b) (- i c))) (vf-record!) #f))"""


def shape_self(r, n):
    extra = r.randint(0, 4)
    ps = ["p%d" % k for k in range(extra)]
    temps = r.randint(0, 3)
    lets = " ".join("(t%d (+ i %d))" % (k, k) for k in range(temps))
    call = "(loop (- i 1) (+ acc 1)%s)" % "".join(" " + p for p in ps)
    body = call
    if temps:
        body = "(let (%s) (if (< t0 0) 'never %s))" % (lets, call)
    src = "(define (loop i acc%s) (vf-sample! i A B C) (if (= i 0) acc %s))\n(loop N 0%s)" % (
        "".join(" " + p for p in ps), body, "".join(" %d" % k for k in range(extra)))
    return "self/params=%d/temps=%d" % (extra, temps), src, "N"


def shape_captured(r, n):
    src = """(define (make-loop step)
  (define (loop i acc) (vf-sample! i A B C) (if (= i 0) acc (loop (- i 1) (+ acc step))))
  loop)
((make-loop 1) N 0)"""
    return "self/captured-variable", src, "N"


def shape_mutual(r, n, k=None):
    k = k or r.randint(2, 5)
    defs = []
    for j in range(k):
        nxt = (j + 1) % k
        defs.append("(define (m%d i acc) (vf-sample! i A B C) (if (= i 0) acc (m%d (- i 1) (+ acc 1))))" % (j, nxt))
    return "mutual/k=%d" % k, "\n".join(defs) + "\n(m0 N 0)", "N"


def shape_param(r, n):
    src = "(define (loop f i acc) (vf-sample! i A B C) (if (= i 0) acc (f f (- i 1) (+ acc 1))))\n(loop loop N 0)"
    return "via-parameter", src, "N"


def shape_apply(r, n):
    src = "(define (loop i acc) (vf-sample! i A B C) (if (= i 0) acc (apply loop (list (- i 1) (+ acc 1)))))\n(loop N 0)"
    return "via-apply", src, "N"


def shape_cond(r, n):
    form = r.choice(["cond", "and", "or", "when", "unless", "case", "if-nested"])
    call = "(loop (- i 1) (+ acc 1))"
    if form == "cond":
        body = "(cond ((= i 0) acc) ((< i 0) 'never) (else %s))" % call
    elif form == "and":
        body = "(if (= i 0) acc (and #t (> i 0) %s))" % call
    elif form == "or":
        body = "(if (= i 0) acc (or #f (< i 0) %s))" % call
    elif form == "when":
        body = "(if (= i 0) acc (when (> i 0) 'x %s))" % call
    elif form == "unless":
        body = "(if (= i 0) acc (unless (< i 0) 'x %s))" % call
    elif form == "case":
        body = "(case i ((0) acc) (else %s))" % call
    else:
        body = "(if (= i 0) acc (if (even? i) (if #t %s 'n) (if #f 'n %s)))" % (call, call)
    return "tail-in-" + form, "(define (loop i acc) (vf-sample! i A B C) %s)\n(loop N 0)" % body, "N"


def shape_letbody(r, n):
    form = r.choice(["let", "let*", "letrec", "begin", "named-let", "do", "internal-define", "lambda-app"])
    call = "(loop (- i 1) (+ acc 1))"
    if form == "let":
        body = "(if (= i 0) acc (let ((a 1) (b 2)) %s))" % call
    elif form == "let*":
        body = "(if (= i 0) acc (let* ((a i) (b (+ a 1))) (let ((c b)) %s)))" % call
    elif form == "letrec":
        body = "(if (= i 0) acc (letrec ((g (lambda (x) x))) %s))" % call
    elif form == "begin":
        body = "(if (= i 0) acc (begin 1 2 %s))" % call
    elif form == "internal-define":
        body = "(if (= i 0) acc (let () (define z (+ i 1)) %s))" % call
    elif form == "lambda-app":
        body = "(if (= i 0) acc ((lambda (z) %s) i))" % call
    elif form == "named-let":
        return "named-let", "(let loop ((i N) (acc 0)) (vf-sample! i A B C) (if (= i 0) acc (loop (- i 1) (+ acc 1))))", "N"
    else:
        return "do-loop", "(do ((i N (- i 1)) (acc 0 (+ acc 1))) ((= i 0) acc) (vf-sample! i A B C))", "N"
    return "tail-in-" + form, "(define (loop i acc) (vf-sample! i A B C) %s)\n(loop N 0)" % body, "N"


def shape_rest(r, n):
    if r.random() < 0.5:
        src = "(define (loop i acc . rest) (vf-sample! i A B C) (if (= i 0) (+ acc (length rest)) (loop (- i 1) (+ acc 1) 'a 'b)))\n(loop N 0)"
        return "rest-args/direct", src, "N+2"
    src = "(define (loop i acc . rest) (vf-sample! i A B C) (if (= i 0) (+ acc (length rest)) (apply loop (- i 1) (+ acc 1) rest)))\n(loop N 0 'x 'y 'z)"
    return "rest-args/apply", src, "N+3"


def shape_setglobal(r, n):
    src = """(define (other i acc) (vf-sample! i A B C) (if (= i 0) acc (step (- i 1) (+ acc 1))))
(define (first i acc) (vf-sample! i A B C) (when (= i B) (set! step other)) (if (= i 0) acc (step (- i 1) (+ acc 1))))
(define step first)
(step N 0)"""
    return "through-global-set!-mid-loop", src, "N"


def shape_cps(r, n):
    src = """(define (loop i k) (vf-sample! i A B C) (if (= i 0) (k 0) (loop (- i 1) (lambda (v) (k (+ v 1))))))
(loop N (lambda (v) v))"""
    return "cps", src, "N"


def shape_handler(r, n):
    src = """(define (loop i acc) (vf-sample! i A B C)
  (if (= i 0) acc (with-handler (lambda (e) (loop (- i 1) (+ acc 1))) (error "x"))))
(loop N 0)"""
    return "handler-tail", src, "N"


def shape_hof_tail(r, n):
    src = """(define (call-it f i acc) (f i acc))
(define (loop i acc) (vf-sample! i A B C) (if (= i 0) acc (call-it loop (- i 1) (+ acc 1))))
(loop N 0)"""
    return "via-higher-order-helper", src, "N"


def shape_local_helper(r, n, form=None):
    """the tail call back to the enclosing function is made from the tail of a helper lambda that is bound by a let (or an
    internal define) inside it and called in tail position: two tail calls per iteration, neither may keep a frame"""
    form = form or r.choice(["let", "define", "let-two", "named-inner"])
    if form == "let":
        src = "(define (loop i acc) (vf-sample! i A B C) (let ((k (lambda (m) (loop m (+ acc 1))))) (if (= i 0) acc (k (- i 1)))))\n(loop N 0)"
    elif form == "define":
        src = "(define (loop i acc) (define (k m) (loop m (+ acc 1))) (vf-sample! i A B C) (if (= i 0) acc (k (- i 1))))\n(loop N 0)"
    elif form == "let-two":
        src = ("(define (loop i acc) (vf-sample! i A B C) (let ((down (lambda (m) (loop m (+ acc 1)))) (stay (lambda (m) (loop (- m 1) (+ acc 1))))) "
               "(cond ((= i 0) acc) ((even? i) (down (- i 1))) (else (stay i)))))\n(loop N 0)")
    else:
        src = ("(define (loop i acc) (vf-sample! i A B C) (if (= i 0) acc (let inner ((j 0)) (if (< j 2) (inner (+ j 1)) (loop (- i 1) (+ acc 1))))))\n(loop N 0)")
    return "via-local-helper/" + form, src, "N"


SHAPES = [shape_self, shape_self, shape_captured, shape_mutual, shape_mutual, shape_param, shape_apply, shape_cond,
          shape_cond, shape_letbody, shape_letbody, shape_rest, shape_setglobal, shape_cps, shape_hof_tail,
          shape_handler]
# shapes without RSS comparison: "cps" uses heap linearly by construction; the inner named let of "named-inner" allocates one
# self-referential closure (cyclic garbage) per iteration, so resident memory follows the collector's doubling / compaction
# sawtooth until its plateau (measured: 183 MB at 10^6 iterations, 398 MB at 3*10^6) - that policy is judged by C19, and the
# stack-depth samples still apply here (a false alarm of the thorough tier, see DESIGN section 5)
HEAP_LINEAR = ("cps", "via-local-helper/named-inner")

DEEP = [
    ("non-tail-recursion", "(define (deep n) (if (= n 0) 0 (+ 1 (deep (- n 1)))))\n(deep %d)", 20000000),
    ("non-tail-through-map", "(define (f n) (if (= n 0) 0 (car (map (lambda (x) (+ 1 (f (- n 1)))) (list 1)))))\n(f %d)", 200000),
    ("non-tail-mutual", "(define (a n) (if (= n 0) 0 (+ 1 (b (- n 1)))))\n(define (b n) (if (= n 0) 0 (+ 1 (a (- n 1)))))\n(a %d)", 20000000),
    ("non-tail-in-let", "(define (g n) (if (= n 0) 0 (let ((r (g (- n 1)))) (+ r 1))))\n(g %d)", 20000000),
]

CONFIGS = [("default", {}, False), ("nojit", {"STEEL_JIT": "false"}, False),
           ("module", {}, True), ("module-nojit", {"STEEL_JIT": "false"}, True)]


def instantiate(src, n):
    a, b, c = n - 1, n // 2, 1
    return src.replace(" A B C)", " %d %d %d)" % (a, b, c)).replace("N", str(n)).replace("(= i B)", "(= i %d)" % b)


def main(tier):
    rep = core.Reporter("C09", tier)
    counts = [1000, 100000] if tier == "quick" else [1000, 100000, 1000000, 10000000]
    reps = 2 if tier == "quick" else 12
    r = core.rng("C09")
    progs = []
    for _ in range(reps):
        for f in SHAPES:
            progs.append(f(r, 0))
    for k in (2, 3, 4, 5):
        progs.append(shape_mutual(r, 0, k))
    for form in ("let", "define", "let-two", "named-inner"):
        progs.append(shape_local_helper(r, 0, form))
    # dedupe
    seen = set()
    uniq = []
    for name, src, closed in progs:
        if src not in seen:
            seen.add(src)
            uniq.append((name, src, closed))
    rep.coverage["rule"] = (
        "generated tail-loop shapes (self with 0-4 extra parameters and 0-3 live let temporaries, captured variable, "
        "mutual k=2..5, via parameter, via apply, cond/and/or/when/unless/case/nested-if tails, let/let*/letrec/begin/"
        "internal-define/lambda-application bodies, named let, do, rest arguments direct and via apply, through a global "
        "set! mid-loop, CPS, via a higher-order helper, handler tail) x iteration counts x {JIT on, off}; a case is "
        "non-trivial when all three in-loop depth samples were taken; distinct by (shape source, count, config)")
    for cname, env, as_module in CONFIGS:
        cases = []
        meta = {}
        for k, (name, src, closed) in enumerate(uniq):
            for n in counts:
                if (name == "cps" and n > 1000000) or (name == "handler-tail" and n > 1000):
                    continue
                cid = "%s_%d_%d" % (cname, k, n)
                meta[cid] = (name, src, closed, n)
                if as_module:
                    # one module: sampler, loop and reporting (the way `steel file.scm` runs a script)
                    body = instantiate(src, n)
                    lines = body.rstrip().split("\n")
                    lines[-1] = "(verif-emit %s)" % lines[-1]
                    text = SAMPLER + "\n" + "\n".join(lines) + "\n(verif-emit vf-samples)"
                    cases.append({"id": cid, "units": [text], "as_module": True,
                                  "timeout_ms": 300000 if n >= 1000000 else 60000, "mem_mb": 8192})
                else:
                    cases.append({"id": cid, "units": [SAMPLER, instantiate(src, n), "vf-samples"],
                                  "timeout_ms": 300000 if n >= 1000000 else 60000, "mem_mb": 8192})
        deep_meta = {}
        for name, src, depth in DEEP:
            d = depth if tier == "thorough" else depth // 10
            cid = "%s_deep_%s" % (cname, name)
            deep_meta[cid] = (name, src % d)
            dc = {"id": cid, "units": [src % d], "timeout_ms": 300000, "mem_mb": 12288}
            if as_module:
                dc["as_module"] = True
            cases.append(dc)
        results, m = core.run_cases(cases, env=env, tag="c09")
        for e in m["harness_errors"]:
            rep.inconclusive_note("harness: %s" % e)
        rss = {}
        for cid, (name, src, closed, n) in meta.items():
            res = results.get(cid)
            if res is None:
                continue
            rep.count()
            replay = {"config": env, "shape": name, "src": instantiate(src, n), "as_module": as_module}
            if res["status"] != "ok":
                if res["status"] == "timeout":
                    rep.inconclusive_note("timeout: %s n=%d %s" % (name, n, cname))
                elif "memory allocation" in res.get("stderr_tail", ""):
                    rep.violation("C09 %s: memory exhausted by a tail loop" % name,
                                  "config=%s n=%d stderr=%s" % (cname, n, res.get("stderr_tail", "")[-200:]), replay)
                else:
                    rep.violation("C09 %s: process %s" % (name, res["status"]),
                                  "config=%s n=%d stderr=%s" % (cname, n, res.get("stderr_tail", "")[-200:]), replay)
                continue
            us = res["units"]
            if as_module and us and us[0].get("ok") and len(us[0].get("emits") or []) >= 2:
                em = us[0]["emits"]
                us = [{"ok": True}, {"ok": True, "vals": [em[-2]]}, {"ok": True, "vals": [em[-1]]}]
            elif as_module:
                us = [{"ok": True}, dict(us[0] if us else {}, ok=False)]
            if len(us) < 3 or not us[1].get("ok"):
                u = us[1] if len(us) > 1 else {}
                rep.violation("C09 %s: loop ended with an error" % name,
                              "n=%d err=%s panics=%s" % (n, u.get("err"), u.get("panics")), replay)
                continue
            expect = {"N": n, "N+2": n + 2, "N+3": n + 3}[closed]
            got = us[1]["vals"][-1]
            if got != "i:%d" % expect:
                rep.violation("C09 %s: wrong loop result" % name, "n=%d expected=%d got=%s" % (n, expect, got), replay)
                continue
            samples = core_split(us[2]["vals"][-1])
            if len(samples) != 3:
                rep.inconclusive_note("%s n=%d: %d depth samples instead of 3" % (name, n, len(samples)))
                continue
            rep.nontrivial((src, n, cname))
            depths = [parse_depth(x) for x in samples]
            if None in depths:
                rep.inconclusive_note("%s n=%d: unreadable depth sample" % (name, n))
                continue
            # samples are (last-taken .. first-taken) = iterations (n-1 from the end .. first).  Values left
            # inside one frame until it returns make individual samples differ by a few slots; growth *per
            # iteration* would make the later samples exceed the earliest by ~n/2 and ~n.
            first = depths[-1]
            worst = max(d[0] - first[0] for d in depths), max(d[1] - first[1] for d in depths)
            if worst[0] > SLACK or worst[1] > SLACK:
                rep.violation("C09 %s: stack depth grows with the iteration number" % name,
                              "config=%s n=%d samples(frames,operands) latest-first=%s" % (cname, n, depths), replay)
                continue
            rss[(name, src, n)] = res.get("maxrss_kb") or 0
            if len(rep.coverage["samples"]) < 6 and n == counts[-1]:
                rep.sample({"shape": name, "config": cname, "iterations": n, "program": instantiate(src, n),
                            "depth_samples": samples, "result": got, "maxrss_kb": res.get("maxrss_kb")})
        # memory: peak RSS at 10n vs n
        for (name, src, n), kb in rss.items():
            big = rss.get((name, src, n * 10))
            if big is None or name in HEAP_LINEAR or n < 100000:
                continue
            rep.add("rss_pairs_compared")
            if big - kb > 48 * 1024:
                rep.violation("C09 %s: peak memory grows with the iteration count" % name,
                              "rss(n=%d)=%dkB rss(n=%d)=%dkB" % (n, kb, n * 10, big),
                              {"config": env, "shape": name, "src": instantiate(src, n * 10)})
        for cid, (name, src) in deep_meta.items():
            res = results.get(cid)
            if res is None:
                continue
            rep.count()
            replay = {"config": env, "shape": name, "src": src, "deep": True}
            if res["status"] == "timeout":
                rep.inconclusive_note("deep recursion timed out: %s %s" % (name, cname))
            elif res["status"] != "ok":
                if "memory allocation" in res.get("stderr_tail", ""):
                    rep.inconclusive_note("deep recursion hit the address-space cap: %s %s" % (name, cname))
                else:
                    rep.violation("C09 deep %s: process %s instead of an error value" % (name, res["status"]),
                                  "stderr=%s" % res.get("stderr_tail", "")[-300:], replay)
            else:
                u = res["units"][0]
                rep.nontrivial((src, cname))
                if u.get("panics"):
                    rep.violation("C09 deep %s: panic" % name, str(u["panics"][0]), replay)
                elif len(rep.coverage["samples"]) < 8:
                    rep.sample({"shape": name, "config": cname, "program": src,
                                "outcome": "Err " + str(u.get("kind")) if not u.get("ok") else u["vals"][-1]})
    rep.assumptions += ["depth is observed through the hook builtin #%verif-stack-depth (lengths of the frame stack and the "
                        "operand stack); native (machine) stack use of natively compiled loops is covered by process "
                        "survival at 10^5..10^7 iterations"]
    if rep.coverage["distinct_nontrivial"] if False else False:
        pass
    return rep.finish()


SLACK = 16


def parse_depth(x):
    import re
    m = re.match(r"^\(L i:(\d+) i:(\d+)\)$", x)
    return (int(m.group(1)), int(m.group(2))) if m else None


def core_split(s):
    from .c10 import split_list
    return split_list(s) or []


def replay(path):
    d = json.load(open(path))["replay"]
    units = [d["src"]] if d.get("deep") else [SAMPLER, d["src"], "vf-samples"]
    res, _ = core.run_cases([{"id": "r", "units": units, "timeout_ms": 600000, "mem_mb": 12288}], env=d.get("config"), shards=1)
    r = res["r"]
    print(json.dumps(r, indent=1)[:3000])
    bad = r["status"] not in ("ok",)
    if not bad and not d.get("deep"):
        us = r["units"]
        ds = [parse_depth(x) for x in core_split(us[2]["vals"][-1])] if us[1].get("ok") else []
        bad = not ds or None in ds or max(d[0] - ds[-1][0] for d in ds) > SLACK or max(d[1] - ds[-1][1] for d in ds) > SLACK
    if bad:
        print("VIOLATION property=C09 replay=%s" % path)
        return 1
    return 0
