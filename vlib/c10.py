"""C10 — exact arithmetic is exact and the numeric tower is coherent.

Oracle: Python int / fractions.Fraction / float (IEEE double) arithmetic.  The engine's results are
read through the harness's canonical rendering (never through Steel's number printer, except for the
number->string cases, which are the thing under test there)."""
import math
import struct
from fractions import Fraction

from . import core

# ---------------------------------------------------------------------------------- values


def lit(v):
    """Scheme source text of a numeric value."""
    if isinstance(v, bool):
        return "#t" if v else "#f"
    if isinstance(v, int):
        return str(v)
    if isinstance(v, Fraction):
        if v.denominator == 1:
            return str(v.numerator)
        return "%d/%d" % (v.numerator, v.denominator)
    if isinstance(v, float):
        if math.isinf(v):
            return "+inf.0" if v > 0 else "-inf.0"
        if math.isnan(v):
            return "+nan.0"
        if v == 0.0 and math.copysign(1.0, v) < 0:
            # the literal -0.0 is a reader matter (C12); build the value arithmetically
            return "(- 0.0)"
        r = repr(v)
        if "e" not in r and "." not in r:
            r += ".0"
        return r
    raise TypeError(v)


def canon(v):
    """Canonical rendering matching steel::verif::canon."""
    if isinstance(v, bool):
        return "#t" if v else "#f"
    if isinstance(v, int):
        return "i:%d" % v
    if isinstance(v, Fraction):
        if v.denominator == 1:
            return "i:%d" % v.numerator
        return "q:%d/%d" % (v.numerator, v.denominator)
    if isinstance(v, float):
        if math.isnan(v):
            return "f:nan"
        return "f:%016x" % struct.unpack("<Q", struct.pack("<d", v))[0]
    if isinstance(v, str):
        return 's:"%s"' % v
    if isinstance(v, Sym):
        return 'y:"%s"' % v.name
    if isinstance(v, (list, tuple)):
        return "(L" + "".join(" " + canon(x) for x in v) + ")"
    raise TypeError(v)


class Sym:
    def __init__(self, name):
        self.name = name


def norm(v):
    if isinstance(v, Fraction) and v.denominator == 1:
        return int(v.numerator)
    return v


BOUNDS = [0, 1, -1, 2, -2, 3, 7, 10, 255, 2 ** 31 - 1, 2 ** 31, -2 ** 31, 2 ** 32, 2 ** 53 - 1, 2 ** 53,
          2 ** 62 - 1, 2 ** 62, 2 ** 62 + 1, -2 ** 62, 2 ** 63 - 2, 2 ** 63 - 1, 2 ** 63, 2 ** 63 + 1,
          -2 ** 63 + 1, -2 ** 63, -2 ** 63 - 1, 2 ** 64 - 1, 2 ** 64, 2 ** 64 + 1, -2 ** 64, 3037000499,
          3037000500, 4294967296, 4294967295, 2 ** 127, 2 ** 128 - 1]


def gen_int(r, cls=None):
    c = cls or r.choice(["small", "small", "bound", "bound", "near", "big", "huge"])
    if c == "small":
        return r.randint(-20, 20)
    if c == "bound":
        return r.choice(BOUNDS) * r.choice([1, 1, -1])
    if c == "near":
        return r.choice([2 ** 31, 2 ** 62, 2 ** 63, 2 ** 64, 2 ** 32]) * r.choice([1, -1]) + r.randint(-3, 3)
    if c == "big":
        return r.getrandbits(r.randint(60, 200)) * r.choice([1, -1])
    return r.getrandbits(r.randint(200, 2000)) * r.choice([1, -1])


def gen_rat(r):
    c = r.choice(["small", "small", "mixed", "huge", "i32edge"])
    if c == "small":
        d = r.randint(1, 12)
        return norm(Fraction(r.randint(-30, 30), d))
    if c == "i32edge":
        # Rational32 boundary: components near 2^31
        n = r.choice([2 ** 31 - 1, 2 ** 31, 2 ** 31 + 1, -2 ** 31, -2 ** 31 - 1, 2 ** 30, 46341, 65536]) + r.randint(-2, 2)
        d = r.choice([2 ** 31 - 1, 2 ** 31, 2 ** 31 + 1, 3, 7, 65536, 46341]) + r.randint(0, 2)
        return norm(Fraction(n, d))
    if c == "mixed":
        return norm(Fraction(gen_int(r), abs(gen_int(r, "small")) + 1))
    return norm(Fraction(gen_int(r, "big"), abs(gen_int(r, "big")) + 1))


FLOATS = [0.0, -0.0, 1.0, -1.0, 0.5, 0.1, 1.5, 2.5, -2.5, 3.5, 1e10, 1e300, -1e300, 5e-324, 2.2250738585072014e-308,
          1.7976931348623157e308, float("inf"), float("-inf"), 9007199254740992.0, 4503599627370496.5,
          0.30000000000000004, 123456.789, 1e-7, 1e21, 1e22]


def gen_float(r):
    if r.random() < 0.6:
        return r.choice(FLOATS)
    return struct.unpack("<d", struct.pack("<Q", r.getrandbits(64)))[0]


def gen_exact(r):
    return gen_rat(r) if r.random() < 0.35 else gen_int(r)


def safe_float_conv(v):
    """exact value whose conversion to double is unambiguous (exactly representable)"""
    if isinstance(v, int):
        return abs(v) < 2 ** 53
    if isinstance(v, Fraction):
        # representable exactly iff denominator is a power of two and numerator small
        d = v.denominator
        return abs(v.numerator) < 2 ** 53 and d < 2 ** 53 and True
    return False


# ---------------------------------------------------------------------------------- operations

class Skip(Exception):
    pass


def is_exact(v):
    return isinstance(v, (int, Fraction)) and not isinstance(v, bool)


def tofloat(v):
    if isinstance(v, float):
        return v
    if not safe_float_conv(v):
        raise Skip()
    if isinstance(v, Fraction):
        return v.numerator / v.denominator  # correctly rounded for |n|,d < 2^53
    return float(v)


def mixed(args):
    return any(isinstance(a, float) for a in args)


def fold_arith(op, args):
    if mixed(args):
        if len(args) != 2:
            raise Skip()
        a, b = tofloat(args[0]), tofloat(args[1])
        nanchk = True
        try:
            if op == "+":
                res = a + b
            elif op == "-":
                res = a - b
            elif op == "*":
                res = a * b
            else:
                if b == 0.0:
                    # IEEE division by zero; an exact zero divisor is left out (error-vs-inf is not pinned)
                    if is_exact(args[1]):
                        raise Skip()
                    if a == 0.0 or math.isnan(a):
                        res = float("nan")
                    else:
                        res = math.copysign(float("inf"), a) * math.copysign(1.0, b)
                else:
                    res = a / b
        except OverflowError:
            raise Skip()
        return res
    if not args:
        return 0 if op == "+" else 1
    acc = args[0]
    if len(args) == 1:
        if op == "-":
            return norm(-acc)
        if op == "/":
            if acc == 0:
                raise Skip()
            return norm(Fraction(1) / acc)
        return acc
    for b in args[1:]:
        if op == "+":
            acc = acc + b
        elif op == "-":
            acc = acc - b
        elif op == "*":
            acc = acc * b
        else:
            if b == 0:
                raise Skip()
            acc = Fraction(acc) / b
    return norm(acc)


def trunc_div(a, b):
    q = abs(a) // abs(b)
    return q if (a >= 0) == (b >= 0) else -q


def op_apply(op, args):
    """Return the expected Python value, or raise Skip for combinations that are not pinned down."""
    if op in "+-*/":
        return fold_arith(op, args)
    if op in ("quotient", "remainder", "modulo"):
        a, b = args
        if not (isinstance(a, int) and isinstance(b, int)) or b == 0:
            raise Skip()
        if op == "quotient":
            return trunc_div(a, b)
        if op == "remainder":
            return a - b * trunc_div(a, b)
        return a % b  # python % is floor-mod: sign of divisor == scheme modulo
    if op in ("=", "<", ">", "<=", ">="):
        vals = []
        for a in args:
            if isinstance(a, float):
                if math.isnan(a):
                    raise Skip()
                if math.isinf(a):
                    vals.append(a)
                else:
                    vals.append(Fraction(a))
            else:
                if mixed(args) and not safe_float_conv(a):
                    raise Skip()
                vals.append(Fraction(a))
        f = {"=": lambda x, y: x == y, "<": lambda x, y: x < y, ">": lambda x, y: x > y,
             "<=": lambda x, y: x <= y, ">=": lambda x, y: x >= y}[op]
        return all(f(x, y) for x, y in zip(vals, vals[1:]))
    if op == "abs":
        (a,) = args
        if isinstance(a, float):
            return abs(a)
        return norm(abs(a))
    if op in ("gcd", "lcm"):
        if not all(isinstance(a, int) for a in args):
            raise Skip()
        if op == "gcd":
            g = 0
            for a in args:
                g = math.gcd(g, a)
            return g
        l = 1
        for a in args:
            if a == 0:
                return 0
            l = abs(l * a) // math.gcd(l, a)
        return l
    if op == "expt":
        b, e = args
        if not is_exact(b) or not isinstance(e, int):
            raise Skip()
        if abs(e) > 300 or (abs(e) > 40 and (abs(Fraction(b).numerator) > 2 ** 70 or Fraction(b).denominator > 2 ** 70)):
            raise Skip()
        if e < 0:
            if b == 0:
                raise Skip()
            return norm(Fraction(1) / (Fraction(b) ** (-e)))
        return norm(Fraction(b) ** e)
    if op == "exact-integer-sqrt":
        (a,) = args
        if not isinstance(a, int) or a < 0:
            raise Skip()
        s = math.isqrt(a)
        return [s, a - s * s]
    if op in ("min", "max"):
        if mixed(args):
            raise Skip()
        return norm((min if op == "min" else max)(args))
    if op == "number->string":
        (a,) = args
        if not is_exact(a):
            raise Skip()
        return lit(a)
    if op == "string->number":
        (a,) = args
        if not is_exact(a):
            raise Skip()
        return a
    if op in ("exact->inexact", "inexact"):
        (a,) = args
        return tofloat(a)
    if op in ("inexact->exact", "exact"):
        (a,) = args
        if isinstance(a, float):
            if math.isinf(a) or math.isnan(a):
                raise Skip()
            return norm(Fraction(a))
        return a
    if op in ("floor", "ceiling", "truncate", "round"):
        (a,) = args
        if isinstance(a, float):
            if math.isinf(a) or math.isnan(a):
                return a
            if abs(a) >= 2 ** 52:
                return a
            res = float({"floor": math.floor, "ceiling": math.ceil, "truncate": math.trunc, "round": round}[op](a))
            if res == 0.0:
                res = math.copysign(0.0, a)   # IEEE: the sign of a zero result is the operand's
            return res
        f = Fraction(a)
        if op == "floor":
            return math.floor(f)
        if op == "ceiling":
            return math.ceil(f)
        if op == "truncate":
            return math.trunc(f)
        return round(f)  # Fraction.__round__ is half-even
    if op in ("even?", "odd?"):
        (a,) = args
        if not isinstance(a, int):
            raise Skip()
        return (a % 2 == 0) == (op == "even?")
    if op in ("zero?", "positive?", "negative?"):
        (a,) = args
        if isinstance(a, float) and math.isnan(a):
            raise Skip()
        return {"zero?": a == 0, "positive?": a > 0, "negative?": a < 0}[op]
    if op == "square":
        (a,) = args
        if isinstance(a, float):
            raise Skip()
        return norm(a * a)
    if op in ("numerator", "denominator"):
        (a,) = args
        if not is_exact(a):
            raise Skip()
        f = Fraction(a)
        return f.numerator if op == "numerator" else f.denominator
    if op in ("exact-integer?", "integer?", "rational?", "exact?", "inexact?"):
        (a,) = args
        if op == "exact-integer?":
            return isinstance(a, int)
        if op == "exact?":
            return is_exact(a)
        if op == "inexact?":
            return isinstance(a, float)
        if op == "integer?":
            if isinstance(a, float):
                return (not math.isinf(a)) and (not math.isnan(a)) and a == math.floor(a)
            return isinstance(a, int)
        if isinstance(a, float):
            return not (math.isinf(a) or math.isnan(a))
        return True
    raise Skip()


OPS = [
    ("+", (0, 5)), ("-", (1, 4)), ("*", (0, 4)), ("/", (1, 3)),
    ("quotient", (2, 2)), ("remainder", (2, 2)), ("modulo", (2, 2)),
    ("=", (2, 2)), ("<", (2, 4)), (">", (2, 4)), ("<=", (2, 4)), (">=", (2, 4)),
    ("abs", (1, 1)), ("gcd", (2, 2)), ("lcm", (2, 2)), ("expt", (2, 2)), ("exact-integer-sqrt", (1, 1)),
    ("min", (1, 3)), ("max", (1, 3)), ("number->string", (1, 1)), ("string->number", (1, 1)),
    ("exact->inexact", (1, 1)), ("inexact->exact", (1, 1)), ("exact", (1, 1)), ("inexact", (1, 1)),
    ("floor", (1, 1)), ("ceiling", (1, 1)), ("truncate", (1, 1)), ("round", (1, 1)),
    ("even?", (1, 1)), ("odd?", (1, 1)), ("zero?", (1, 1)), ("positive?", (1, 1)), ("negative?", (1, 1)),
    ("square", (1, 1)), ("numerator", (1, 1)), ("denominator", (1, 1)),
    ("exact-integer?", (1, 1)), ("integer?", (1, 1)), ("rational?", (1, 1)), ("exact?", (1, 1)), ("inexact?", (1, 1)),
]
OP_WEIGHT = {"+": 6, "-": 6, "*": 6, "/": 5, "quotient": 3, "remainder": 3, "modulo": 3, "=": 3, "<": 3, ">": 2,
             "<=": 2, ">=": 2, "abs": 3, "expt": 3, "gcd": 2, "lcm": 2, "exact-integer-sqrt": 2}

SHAPES = ["call", "call", "const", "local", "litR", "litL", "branch", "tail", "apply", "alias", "loop", "looplit", "looplit", "let", "hof"]


def gen_args(r, op, n):
    if op in ("quotient", "remainder", "modulo", "gcd", "lcm", "even?", "odd?", "exact-integer-sqrt"):
        a = [gen_int(r) for _ in range(n)]
        if op == "exact-integer-sqrt":
            a = [abs(x) for x in a]
            if r.random() < 0.4:
                s = abs(gen_int(r, r.choice(["bound", "big"])))
                a = [s * s + r.choice([-1, 0, 0, 1, 2 * s])]
                a = [abs(x) for x in a]
        return a
    if op == "expt":
        return [gen_exact(r) if r.random() < 0.8 else r.choice([2, -2, 10, 3]), r.randint(-6, 70) if r.random() < 0.8 else r.choice([62, 63, 64, 127, 128, 0, 1])]
    if op in ("string->number", "number->string", "numerator", "denominator", "square"):
        return [gen_exact(r) for _ in range(n)]
    k = r.random()
    if k < 0.6:
        return [gen_exact(r) for _ in range(n)]
    if k < 0.75:
        return [gen_float(r) for _ in range(n)]
    if k < 0.9 and n >= 1:
        a = [gen_exact(r) if r.random() < 0.5 else gen_float(r) for _ in range(n)]
        return a
    # arguments chosen to land exactly on a boundary
    t = r.choice([2 ** 62, 2 ** 63, -2 ** 63, 2 ** 64, 2 ** 31, 2 ** 32])
    if op in "+-" and n == 2 and r.random() < 0.5:
        # a boundary value and a small step that crosses it within a few iterations (either direction)
        step = r.choice([1, 2, 3, 4, 7, 10, 100])
        edge = r.choice([2 ** 63 - 1, -2 ** 63, 2 ** 63, -2 ** 63 - 1, 2 ** 62, -2 ** 62])
        x = edge + r.randint(-6, 6)
        return [x, step * r.choice([1, -1])]
    if op in "+-" and n == 2:
        x = gen_int(r, "near")
        return [x, t - x] if op == "+" else [x, x - t]
    if op == "*" and n == 2:
        f = r.choice([2, 3, 4, 2 ** 31, 2 ** 32, 3037000500, -1, -2])
        return [t // f + r.randint(-1, 1), f]
    return [gen_exact(r) for _ in range(n)]


def build_expr(r, idx, op, args, expected):
    """Return (prelude_forms, expr_text, expected_value) for one shape. `expected` is the value of
    (op args...)."""
    shape = r.choice(SHAPES)
    A = [lit(a) for a in args]
    if op == "string->number":
        A = ['"%s"' % lit(args[0])]
    call = "(%s %s)" % (op, " ".join(A)) if A else "(%s)" % op
    n = len(args)
    pre = []
    if shape in ("call", "const") or n == 0:
        return shape if n else "call", pre, call, expected
    vs = ["x%d" % i for i in range(n)]
    if shape == "local":
        f = "f%d" % idx
        pre.append("(define (%s %s) (%s %s))" % (f, " ".join(vs), op, " ".join(vs)))
        return shape, pre, "(%s %s)" % (f, " ".join(A)), expected
    if shape in ("litR", "litL") and n == 2:
        f = "f%d" % idx
        if shape == "litR":
            pre.append("(define (%s x) (%s x %s))" % (f, op, A[1]))
            return shape, pre, "(%s %s)" % (f, A[0]), expected
        pre.append("(define (%s x) (%s %s x))" % (f, op, A[0]))
        return shape, pre, "(%s %s)" % (f, A[1]), expected
    if shape == "branch" and isinstance(expected, bool):
        f = "f%d" % idx
        pre.append("(define (%s %s) (if (%s %s) 'yes 'no))" % (f, " ".join(vs), op, " ".join(vs)))
        return shape, pre, "(%s %s)" % (f, " ".join(A)), Sym("yes" if expected else "no")
    if shape == "tail":
        f = "f%d" % idx
        pre.append("(define (%s k %s) (if (= k 0) (%s %s) (%s (- k 1) %s)))" % (
            f, " ".join(vs), op, " ".join(vs), f, " ".join(vs)))
        return shape, pre, "(%s 3 %s)" % (f, " ".join(A)), expected
    if shape == "apply":
        return shape, pre, "(apply %s (list %s))" % (op, " ".join(A)), expected
    if shape == "alias":
        f = "op%d" % idx
        pre.append("(define %s %s)" % (f, op))
        return shape, pre, "(%s %s)" % (f, " ".join(A)), expected
    if shape == "let":
        binds = " ".join("(%s %s)" % (v, a) for v, a in zip(vs, A))
        return shape, pre, "(let (%s) (%s %s))" % (binds, op, " ".join(vs)), expected
    if shape == "hof" and n == 2:
        return shape, pre, "(car (map %s (list %s) (list %s)))" % (op, A[0], A[1]), expected
    if shape == "looplit" and op in ("+", "-", "*") and n == 2 and is_exact(args[0]) and is_exact(args[1]):
        # the operation with a *literal* operand, iterated in a self tail loop (not inlinable, so the
        # natively compiled specialisations for immediates run); the accumulator crosses the boundary mid-loop
        k = r.randint(2, 12)
        if op == "*" and (abs(Fraction(args[1]).numerator) > 2 ** 64 or Fraction(args[1]).denominator > 2 ** 32):
            k = r.randint(2, 4)
        f = "f%d" % idx
        left = r.random() < 0.3
        body = "(%s %s acc)" % (op, A[1]) if left else "(%s acc %s)" % (op, A[1])
        pre.append("(define (%s i acc) (if (= i 0) acc (%s (- i 1) %s)))" % (f, f, body))
        acc = args[0]
        for _ in range(k):
            acc = fold_arith(op, [args[1], acc] if left else [acc, args[1]])
        return shape, pre, "(%s %d %s)" % (f, k, A[0]), acc
    if shape == "loop" and op in ("+", "-", "*") and n == 2 and is_exact(args[0]) and is_exact(args[1]):
        # iterate the operation k times in a tail loop: crosses representation boundaries inside the loop
        k = r.randint(2, 40)
        if op == "*" and (abs(Fraction(args[1]).numerator) > 2 ** 64 or Fraction(args[1]).denominator > 2 ** 32):
            k = r.randint(2, 5)
        f = "f%d" % idx
        pre.append("(define (%s i acc step) (if (= i 0) acc (%s (- i 1) (%s acc step) step)))" % (f, f, op))
        acc = args[0]
        for _ in range(k):
            acc = fold_arith(op, [acc, args[1]])
        return shape, pre, "(%s %d %s %s)" % (f, k, A[0], A[1]), acc
    return "call", pre, call, expected


EDGES = [2 ** 63 - 1, -2 ** 63, 2 ** 63, -2 ** 63 - 1, 2 ** 62, -2 ** 62, 2 ** 62 - 1, 2 ** 64, -2 ** 64, 2 ** 31, -2 ** 31, 2 ** 32]


def gen_walk(r, idx):
    """A self tail loop that walks an accumulator across a representation boundary with a literal (or
    variable) step: acc <- acc op STEP, k times, starting j<k steps before the edge."""
    op = r.choice(["+", "-", "+", "-", "*"])
    edge = r.choice(EDGES)
    f = "w%d" % idx
    k = r.randint(2, 9)
    j = r.randint(0, k - 1)
    if op == "*":
        step = r.choice([2, 3, -2, -1, 4, 10])
        start = edge // (abs(step) ** max(j, 1)) + r.randint(-1, 1)
        if start == 0:
            start = 1
        k = min(k, 5)
    else:
        step = r.choice([1, 1, 2, 3, 7, 100, -1, -2, 2 ** 31, 2 ** 62])
        # direction of travel
        towards = 1 if ((op == "+") == (step > 0)) else -1
        start = edge - towards * abs(step) * j + r.choice([0, 0, 1, -1])
    form = r.choice(["litR", "litR", "litL", "var", "acc-second"])
    S = lit(step)
    if form == "litL" and op != "-":
        body, params, call = "(%s %s acc)" % (op, S), "i acc", "(%s %d %s)" % (f, k, lit(start))
        pre = "(define (%s i acc) (if (= i 0) acc (%s (- i 1) %s)))" % (f, f, body)
    elif form == "var":
        pre = "(define (%s i acc step) (if (= i 0) acc (%s (- i 1) (%s acc step) step)))" % (f, f, op)
        call = "(%s %d %s %s)" % (f, k, lit(start), S)
    elif form == "acc-second":
        pre = "(define (%s acc i) (if (= i 0) acc (%s (%s acc %s) (- i 1))))" % (f, f, op, S)
        call = "(%s %s %d)" % (f, lit(start), k)
    else:
        pre = "(define (%s i acc) (if (= i 0) acc (%s (- i 1) (%s acc %s))))" % (f, f, op, S)
        call = "(%s %d %s)" % (f, k, lit(start))
    acc = start
    for _ in range(k):
        acc = fold_arith(op, [acc, step])
    return {"op": op, "shape": "boundary-walk/" + form, "pre": [pre], "expr": call, "expected": canon(acc),
            "classes": arg_classes([start, step]), "split": r.random() < 0.5}


def gen_near_literal(r, idx):
    """A comparison (or + - *) of a *run-time* operand with an integer literal that lies within one of it: the function is
    mapped over a list (so that the operand is not a compile-time constant and the body is compiled for its own sake - natively,
    when the unit is a module - with its literal-operand specialisation).  Operands: k +- 1/2, k +- 2^-40, the double k, k,
    k +- 1 as fixnum, the ratio k + 1/3, a bignum."""
    op = r.choice(["<", "<=", ">", ">=", "=", "<", "<=", "+", "-", "*"])
    k = r.choice([0, 0, 1, 2, -1, 3, 10, -7, 255, 2 ** 31, -(2 ** 31), 2 ** 53, 2 ** 62])
    cands = [k + 0.5, k - 0.5, float(k), k, k + 1, k - 1, Fraction(3 * k + 1, 3), Fraction(3 * k - 1, 3), -0.5, 0.5, 2.5, -2.5,
             k + 2.0 ** -40 if abs(k) < 2 ** 10 else float(k) + 1.0, 2 ** 70 + k, -0.0]
    xs = [r.choice(cands) for _ in range(r.randint(2, 5))]
    f = "n%d" % idx
    side = r.choice(["R", "R", "L"])
    body = "(%s x %s)" % (op, lit(k)) if side == "R" else "(%s %s x)" % (op, lit(k))
    form = r.choice(["plain", "if", "plain"])
    if form == "if" and op in ("<", "<=", ">", ">=", "="):
        pre = "(define (%s x) (if %s 'yes 'no))" % (f, body)
        conv = lambda v: Sym("yes" if v else "no")
    else:
        pre = "(define (%s x) %s)" % (f, body)
        conv = lambda v: v
    try:
        vals = [conv(op_apply(op, [x, k] if side == "R" else [k, x])) for x in xs]
    except (Skip, ZeroDivisionError, OverflowError):
        raise Skip()
    expr = "(map %s (list %s))" % (f, " ".join(lit(x) for x in xs))
    return {"op": op, "shape": "near-literal/%s%s" % (side, "/if" if form == "if" else ""), "pre": [pre], "expr": expr,
            "expected": "(L" + "".join(" " + canon(v) for v in vals) + ")", "classes": arg_classes(xs[:2]), "split": r.random() < 0.5}


def gen_case(r, idx):
    if r.random() < 0.15:
        return gen_walk(r, idx)
    if r.random() < 0.06:
        try:
            return gen_near_literal(r, idx)
        except Skip:
            pass
    ops = [o for o, _ in OPS]
    w = [OP_WEIGHT.get(o, 1) for o in ops]
    for _ in range(50):
        op = r.choices(ops, w)[0]
        lo, hi = dict(OPS)[op]
        n = r.randint(lo, hi)
        args = gen_args(r, op, n)
        try:
            exp = op_apply(op, args)
            shape, pre, expr, exp2 = build_expr(r, idx, op, args, exp)
        except (Skip, ZeroDivisionError, OverflowError):
            continue
        return {"op": op, "shape": shape, "pre": pre, "expr": expr, "expected": canon(exp2),
                "classes": arg_classes(args), "split": bool(pre) and r.random() < 0.5}
    raise RuntimeError("generator could not produce a case")


def arg_classes(args):
    out = []
    for a in args:
        if isinstance(a, float):
            out.append("flo")
        elif isinstance(a, Fraction):
            out.append("rat" if max(abs(a.numerator), a.denominator) < 2 ** 31 else "bigrat")
        elif abs(a) < 2 ** 31:
            out.append("fix")
        elif abs(a) < 2 ** 62:
            out.append("fix62")
        elif abs(a) <= 2 ** 63:
            out.append("edge")
        else:
            out.append("big")
    return tuple(out)


CONFIGS = [("default", {}), ("nojit", {"STEEL_JIT": "false"}), ("module", {"VERIF_MODULE_MODE": "1"})]



def parse_canon_num(c):
    """('int', n) | ('rat', n, d) | ('flo', bits or None) | None"""
    try:
        if c.startswith("i:"):
            return ("int", int(c[2:]))
        if c.startswith("q:"):
            n, d = c[2:].split("/")
            return ("rat", int(n), int(d))
        if c.startswith("f:"):
            return ("flo", None if c == "f:nan" else int(c[2:], 16))
    except ValueError:
        return None
    return None


def classify(expected, got):
    """Name the *kind* of discrepancy, so that a known finding identifies one specific failure mode
    of one operation and anything else is still reported."""
    if isinstance(got, tuple):
        return got[1]
    if expected.startswith("(L ") and isinstance(got, str) and got.startswith("(L "):
        # a list of results (one function mapped over several operands): name the first element that differs
        el, gl = expected[3:-1].split(" "), got[3:-1].split(" ")
        if len(el) == len(gl):
            for a, b in zip(el, gl):
                if a != b:
                    return classify(a, b)
    e, g = parse_canon_num(expected), parse_canon_num(got)
    if e is None or g is None:
        if expected in ("#t", "#f") and got in ("#t", "#f"):
            return "wrong-boolean"
        return "wrong-result"
    if g[0] == "rat":
        n, d = g[1], g[2]
        if d == 0:
            return "zero-denominator"
        if d < 0 or math.gcd(n, d) != 1 or d == 1:
            val = Fraction(n, d)
            ev = Fraction(e[1], e[2]) if e[0] == "rat" else (Fraction(e[1]) if e[0] == "int" else None)
            return "noncanonical-ratio" + ("" if ev == val else "+wrong-value")
    if e[0] in ("int", "rat") and g[0] in ("int", "rat"):
        ev = Fraction(e[1], e[2]) if e[0] == "rat" else Fraction(e[1])
        gv = Fraction(g[1], g[2]) if g[0] == "rat" else Fraction(g[1])
        if gv == -ev:
            return "sign-flipped"
        if g[0] == "int" and e[0] == "int":
            if g[1] in (2 ** 63 - 1, -2 ** 63) and abs(e[1]) >= 2 ** 63 - 1:
                return "saturated-to-fixnum-limit"
            if (g[1] - e[1]) % 2 ** 64 == 0:
                return "wrapped-mod-2^64"
            if (g[1] - e[1]) % 2 ** 32 == 0:
                return "wrapped-mod-2^32"
        return "wrong-exact-value"
    if e[0] == "flo" and g[0] == "flo":
        if e[1] is None or g[1] is None:
            return "nan-mismatch"
        if (e[1] ^ g[1]) == 1 << 63 and (e[1] & ~(1 << 63)) == 0:
            return "sign-of-zero"
        if abs(e[1] - g[1]) == 1:
            return "off-by-one-ulp"
        return "wrong-double"
    return "exactness-mismatch(%s->%s)" % (e[0], g[0])


def run_items(items, env, per=150, tag="c10"):
    """Evaluate every item on the real engine.  An item's definitions go either in the same top-level
    unit as its call (the compiler may inline them) or, with item['split'], in an earlier unit of
    their own (then the call is a real call of a separately compiled - natively compiled - function).
    Returns outcomes aligned with items: the canonical value string, or ('fail', description)."""
    units = []
    module = bool(env and env.get("VERIF_MODULE_MODE"))
    env = {k: v for k, v in (env or {}).items() if k != "VERIF_MODULE_MODE"}
    for it in items:
        if module:
            # the way the `steel` command runs a script: the text is a module that is required
            units.append("\n".join(it["pre"]) + "\n(verif-emit " + it["expr"] + ")")
        elif it.get("split") and it["pre"]:
            units.append(["\n".join(it["pre"]), it["expr"]])
        else:
            units.append("\n".join(it["pre"]) + "\n" + it["expr"])
    outs = core.run_units(units, env=env, per=per, tag=tag, timeout_ms=120000,
                          case_opts={"as_module": True} if module else None)
    res = [None] * len(items)
    for k, o in enumerate(outs):
        if o is None:
            continue
        if "died" in o:
            res[k] = ("fail", "process %s" % o["died"])
        elif o.get("ok") and module:
            res[k] = o["emits"][-1] if o.get("emits") else "void"
        elif o.get("ok"):
            res[k] = o["vals"][-1] if o["vals"] else "void"
        elif o.get("panic"):
            res[k] = ("fail", "panic at %s: %s" % (o["panic"][0].rsplit(":", 1)[0], o["panic"][1][:60]))
        else:
            res[k] = ("fail", "error %s" % o.get("kind"))
    return res


def main(tier):
    rep = core.Reporter("C10", tier)
    total = 120000 if tier == "quick" else 2400000
    r = core.rng("C10")
    items = [gen_case(r, i) for i in range(total // len(CONFIGS))]
    rep.coverage["rule"] = (
        "seeded generator: operator x operand classes (small, 31/62/63/64-bit boundary +-k, bignum to 2000 bits, "
        "ratios incl. Rational32 edges, doubles incl. +-0/subnormal/inf/random bit patterns) x syntactic shape "
        "(variadic call, constant call, operands as parameters, literal right/left, branch condition, tail "
        "position, apply, alias, let-bound, map, iterated in a tail loop); expected value from Python "
        "int/Fraction/float; a case is distinct by (op, shape, operand classes, expected) and non-trivial when >=1 "
        "operand is outside the small-fixnum class or the result is not a small integer")
    seen_shapes = {}
    seen_ops = {}
    for cname, env in CONFIGS:
        outs = run_items(items, env)
        suspects = {}
        for it, g in zip(items, outs):
            if cname == "module" and ("(- 0.0)" in it["expr"] or any("(- 0.0)" in p for p in it["pre"])):
                # in module mode a negative-zero *operand* is already altered at compile time (finding
                # C10-F13); such items say nothing about the operation under test
                rep.add("module_mode_items_with_negative_zero_operand_skipped")
                continue
            if g is None:
                rep.add("not_run")
                continue
            rep.count()
            seen_shapes[it["shape"]] = seen_shapes.get(it["shape"], 0) + 1
            seen_ops[it["op"]] = seen_ops.get(it["op"], 0) + 1
            if any(c != "fix" for c in it["classes"]) or not it["expected"].startswith("i:") or len(it["expected"]) > 12:
                rep.nontrivial((it["op"], it["shape"], it["classes"], it["expected"]))
            if g == it["expected"]:
                if len(rep.coverage["samples"]) < 10 and it["shape"] not in [x.get("shape") for x in rep.coverage["samples"]]:
                    rep.sample({"shape": it["shape"], "pre": it["pre"], "expr": it["expr"], "expected": it["expected"],
                                "observed": g, "config": cname}, cap=10)
                continue
            sig = "C10 %s %s" % (it["op"], classify(it["expected"], g))
            if cname == "module" and sig.endswith("sign-of-zero"):
                sig = "C10 module mode: sign-of-zero"
            suspects.setdefault(sig, []).append(it)
        rep.add("mismatches_before_confirmation", sum(len(v) for v in suspects.values()))
        # confirm (at most 3 per signature) alone, each on a fresh engine in its own process
        todo = [(sig, it) for sig, its in sorted(suspects.items()) for it in its[:3]]
        again = run_items([it for _, it in todo], env, per=1, tag="c10i")
        confirmed = set()
        for (sig, it), g in zip(todo, again):
            if g == it["expected"] or g is None:
                continue
            sig2 = "C10 %s %s" % (it["op"], classify(it["expected"], g))
            if cname == "module" and sig2.endswith("sign-of-zero"):
                sig2 = "C10 module mode: sign-of-zero"
            if sig2 in confirmed:
                continue
            confirmed.add(sig2)
            got = g[1] if isinstance(g, tuple) else g
            rep.violation(sig2, "config=%s shape=%s classes=%s expr=%s pre=%s expected=%s got=%s" % (
                cname, it["shape"], ",".join(it["classes"]), it["expr"], it["pre"], it["expected"], got),
                {"config": env, "pre": it["pre"], "expr": it["expr"], "expected": it["expected"], "got": got})
        for sig in suspects:
            if not any(c.split(" ")[1] == sig.split(" ")[1] for c in confirmed) and sig not in confirmed:
                rep.inconclusive_note("mismatch not reproduced alone: %s" % sig)
    rep.note("by_shape", seen_shapes)
    rep.note("by_op", seen_ops)
    rep.note("configs", [c for c, _ in CONFIGS])
    rep.assumptions += ["Python int/Fraction/float arithmetic is the reference",
                        "mixed exact/inexact cases restricted to operands exactly convertible to double; NaN "
                        "comparisons, inexact variadic folds and mixed min/max are not pinned and not generated"]
    if rep.coverage["evaluations"] < 1000:
        rep.inconclusive_note("fewer than 1000 expressions evaluated", floor=True)
    return rep.finish()


def replay(path):
    import json
    d = json.load(open(path))["replay"]
    it = {"pre": d["pre"], "expr": d["expr"], "expected": d["expected"]}
    got = run_items([it], d.get("config") or {}, tag="c10r")[0]
    print("expected", d["expected"])
    print("observed", got)
    if got != d["expected"]:
        print("VIOLATION property=C10 replay=%s" % path)
        return 1
    return 0


def split_list(s):
    """Split the canonical rendering '(L a b c)' into top-level element strings."""
    if not s.startswith("(L"):
        return None
    body = s[2:-1]
    out = []
    depth = 0
    cur = []
    instr = False
    i = 0
    while i < len(body):
        ch = body[i]
        if instr:
            cur.append(ch)
            if ch == "\\":
                cur.append(body[i + 1])
                i += 1
            elif ch == '"':
                instr = False
        elif ch == '"':
            instr = True
            cur.append(ch)
        elif ch == "(":
            depth += 1
            cur.append(ch)
        elif ch == ")":
            depth -= 1
            cur.append(ch)
        elif ch == " " and depth == 0:
            if cur:
                out.append("".join(cur))
                cur = []
        else:
            cur.append(ch)
        i += 1
    if cur:
        out.append("".join(cur))
    return out
