"""C11 — equal? is structural, hashing agrees with it, collections behave as their models.

Differential monitoring against the reference machine (structural equality = equality of the
printer-independent canonical rendering; lists/vectors/hash maps/hash sets/strings as Python
sequences, dicts and sets): (a) generated pairs/triples of values with explicit internal sharing
(one sub-value bound once and used k times, diamond DAGs) - equal?, its symmetry/transitivity, and
interchangeability of equal? keys in hash maps and hash sets; (b) seeded operation sequences on
each collection kind with boundary indices, empties, duplicate keys and keys that are collections."""
import json

from . import core, schemeref as R
from . import c01


def gen_value(r, depth, shared):
    """Source text of a value; `shared` is a list of already bound names of sub-values."""
    k = r.random()
    if shared and k < 0.25:
        return r.choice(shared)
    if depth <= 0 or k < 0.5:
        return r.choice(["0", "1", "-1", "7", "12345678901234567890", "1/2", "-3/4", "1.5", "0.0", "#t", "#f", "#\\a", "#\\z",
                         '"a"', '"b"', '""', "'a", "'b", "(list)", '"hello"', "100", "void", "(bytes 1 2 3)", "(bytes)", "(bytes 7)"])
    c = r.random()
    n = r.choice([0, 1, 2, 3])
    items = [gen_value(r, depth - 1, shared) for _ in range(n)]
    if c < 0.35:
        return "(list %s)" % " ".join(items)
    if c < 0.45 and items:
        return "(cons %s %s)" % (items[0], gen_value(r, depth - 1, shared))
    if c < 0.6:
        return "(vector %s)" % " ".join(items)
    if c < 0.7:
        return "(immutable-vector %s)" % " ".join(items)
    if c < 0.85:
        keys = r.sample(["'a", "'b", "1", '"k"', "(list 1 2)", "2", "'c", "(list)"], n)
        return "(hash %s)" % " ".join("%s %s" % (kk, it) for kk, it in zip(keys, items))
    if c < 0.95:
        elems = r.sample(["1", "2", "'a", '"s"', "(list 1)", "(list 1 2)", "3", "#t"], n)
        return "(hashset %s)" % " ".join(elems)
    return "(vf-pt %s %s)" % (gen_value(r, depth - 1, shared), gen_value(r, depth - 1, shared))


def perturb(r, text):
    """A textual variant that denotes a *different* value most of the time."""
    reps = [("1", "2"), ("'a", "'b"), ('"a"', '"b"'), ("0", "0.0"), ("#t", "#f"), ("7", "8"), ("(list)", "(list 0)"), ("1/2", "1/3"),
            ("#\\a", "#\\b"), ("-1", "1"), ("(bytes 1 2 3)", "(bytes 1 2 4)"), ("(bytes 7)", "(bytes 7 0)")]
    r.shuffle(reps)
    for a, b in reps:
        if a in text:
            i = [j for j in range(len(text)) if text.startswith(a, j)]
            j = r.choice(i)
            return text[:j] + b + text[j + len(a):]
    return text + " "


def equality_program(r):
    shared = []
    lines = ["(struct vf-pt (x y) #:transparent)"]
    for i in range(r.randint(0, 3)):
        nm = "s%d" % i
        lines.append("(define %s %s)" % (nm, gen_value(r, 2, list(shared))))
        shared.append(nm)
    a = gen_value(r, r.randint(1, 4), shared)
    mode = r.random()
    if mode < 0.4:
        b = a                          # equal, built separately (not identical)
    elif mode < 0.5:
        b = "a"                        # identical
    else:
        b = perturb(r, a)
    c = r.choice([a, b, perturb(r, b)])
    lines += ["(define a %s)" % a, "(define b %s)" % b, "(define c %s)" % c,
              "(verif-emit (list (equal? a b) (equal? b a) (equal? a a) (equal? b c) (equal? a c)))",
              "(verif-emit (list (if (member a (list c b)) #t #f) (if (member b (list 0 a)) #t #f)))"]
    if "void" not in a + b:
        # every value kind as a key: mutable and immutable vectors, byte vectors, hash maps, hash sets, structs, inexact numbers
        lines.append("(verif-emit (list (hash-contains? (hash a 1) b) (hashset-contains? (hashset a) b) (hash-try-get (hash a 'v) b)))")
    return "\n".join(lines)


def dag_program(r, depth):
    lines = ["(define d0 (list %d))" % r.randint(0, 3), "(define e0 (list %d))" % r.randint(0, 3)]
    for i in range(1, depth + 1):
        k = r.choice(["list", "vector", "cons"])
        if k == "cons":
            lines.append("(define d%d (cons d%d d%d))" % (i, i - 1, i - 1))
            lines.append("(define e%d (cons e%d e%d))" % (i, i - 1, i - 1))
        else:
            lines.append("(define d%d (%s d%d d%d))" % (i, k, i - 1, i - 1))
            lines.append("(define e%d (%s e%d e%d))" % (i, k, i - 1, i - 1))
    lines.append("(verif-emit (list (equal? d%d e%d) (equal? d%d d%d) (equal? e%d d%d)))" % (depth, depth, depth, depth, depth, depth - 1))
    return "\n".join(lines)


def seq_program(r):
    kind = r.choice(["list", "vector", "hash", "hashset", "string", "bytes", "vector"])
    n = r.randint(3, 12)
    lines = []
    em = lambda e: lines.append("(verif-emit %s)" % e)
    if kind == "list":
        lines.append("(define l (list %s))" % " ".join(str(r.randint(0, 5)) for _ in range(r.randint(0, 5))))
        for _ in range(n):
            k = r.randrange(10)
            x = r.randint(0, 6)
            if k == 0:
                lines.append("(set! l (cons %d l))" % x)
            elif k == 1:
                lines.append("(set! l (append l (list %d %d)))" % (x, x))
            elif k == 2:
                lines.append("(set! l (reverse l))")
            elif k == 3:
                em("(with-handler (lambda (e) 'err) (list-ref l %d))" % r.choice([0, 1, x, 20]))
            elif k == 4:
                em("(member %d l)" % x)
            elif k == 5:
                em("(length l)")
            elif k == 6:
                em("(with-handler (lambda (e) 'err) (list (car l) (cdr l)))")
            elif k == 7:
                em("(filter even? l)")
            elif k == 8:
                em("(with-handler (lambda (e) 'err) (list-tail l %d))" % r.choice([0, 1, 2, 30]))
            else:
                em("(map (lambda (z) (* z z)) l)")
            if r.random() < 0.4:
                em("l")
    elif kind == "vector":
        lines.append("(define v (vector %s))" % " ".join(str(r.randint(0, 5)) for _ in range(r.randint(1, 5))))
        lines.append("(define w (vector %s))" % " ".join(str(r.randint(10, 15)) for _ in range(r.randint(0, 6))))
        for _ in range(n):
            k = r.randrange(9)
            x = r.randint(0, 6)
            if k >= 5:
                dest, src = r.choice([("v", "v"), ("v", "v"), ("v", "w"), ("w", "v"), ("w", "w"), ("v", "(immutable-vector 7 8 9)")])
                if k == 5:
                    a1, a2 = r.randint(0, 5), r.randint(0, 6)
                    rng = r.choice(["", " %d" % a1, " %d %d" % (min(a1, a2), max(a1, a2)), " %d %d" % (a1, a2)])
                    lines.append("(with-handler (lambda (e) (verif-emit 'err)) (vector-copy! %s %d %s%s))" % (dest, r.randint(0, 5), src, rng))
                elif k == 6:
                    a1, a2 = r.randint(0, 5), r.randint(0, 6)
                    rng = r.choice(["", " %d" % a1, " %d %d" % (min(a1, a2), max(a1, a2))])
                    lines.append("(with-handler (lambda (e) (verif-emit 'err)) (vector-fill! %s %d%s))" % (dest, x, rng))
                else:
                    em("(list v w)")
                continue
            if k == 0:
                lines.append("(with-handler (lambda (e) (verif-emit 'err)) (vector-set! v %d %d))" % (r.choice([0, 1, x, 9]), x))
            elif k == 1:
                em("(with-handler (lambda (e) 'err) (vector-ref v %d))" % r.choice([0, 1, x, 9, -1]))
            elif k == 2:
                em("(vector-length v)")
            elif k == 3:
                em("(vector->list v)")
            else:
                em("v")
    elif kind == "hash":
        keys = ["'a", "'b", "1", '"k"', "(list 1 2)", "(list)", "2", "'c", "#\\x", "1/2"]
        lines.append("(define h (hash))")
        for _ in range(n):
            k = r.randrange(7)
            key = r.choice(keys)
            if k < 2:
                lines.append("(set! h (hash-insert h %s %d))" % (key, r.randint(0, 9)))
            elif k == 2:
                lines.append("(set! h (hash-remove h %s))" % key)
            elif k == 3:
                em("(hash-try-get h %s)" % key)
            elif k == 4:
                em("(hash-contains? h %s)" % key)
            elif k == 5:
                em("(hash-length h)")
            else:
                em("(with-handler (lambda (e) 'err) (hash-ref h %s))" % key)
            if r.random() < 0.4:
                em("h")
        em("(hash-union h (hash 'a 100 'zz 5))")
    elif kind == "hashset":
        keys = ["'a", "'b", "1", '"k"', "(list 1 2)", "(list)", "2", "'c"]
        lines.append("(define s (hashset))")
        for _ in range(n):
            k = r.randrange(4)
            key = r.choice(keys)
            if k < 2:
                lines.append("(set! s (hashset-insert s %s))" % key)
            elif k == 2:
                em("(hashset-contains? s %s)" % key)
            else:
                em("(hashset-length s)")
            if r.random() < 0.4:
                em("s")
    elif kind == "bytes":
        lines.append("(define b (bytes %s))" % " ".join(str(r.randint(0, 255)) for _ in range(r.randint(0, 5))))
        for _ in range(n):
            k = r.randrange(9)
            x = r.choice([0, 1, 255, 256, -1, r.randint(0, 255)])
            i = r.choice([0, 1, 2, 5, 9, -1])
            if k == 0:
                lines.append("(with-handler (lambda (e) (verif-emit 'err)) (bytes-set! b %d %d))" % (i, x))
            elif k == 1:
                em("(with-handler (lambda (e) 'err) (bytes-ref b %d))" % i)
            elif k == 2:
                lines.append("(with-handler (lambda (e) (verif-emit 'err)) (bytes-push! b %d))" % x)
            elif k == 3:
                em("(bytes-length b)")
            elif k == 4:
                em("(bytes->list b)")
            elif k == 5:
                em("(bytes-append b (bytes 9) b)")
                # the result of an append / copy is a fresh byte vector: mutating it must not show through the operand
                form = r.choice(["(bytes-append (bytes) b)", "(bytes-append b)", "(bytes-append b (bytes))", "(bytes-copy b)", "(bytes-append (bytes) b (bytes))"])
                fr = "fresh%d" % len(lines)      # (a second define of one name in a unit is rejected at compile time)
                lines.append("(define %s %s)" % (fr, form))
                lines.append("(with-handler (lambda (e) (verif-emit 'err)) (bytes-set! %s 0 %d))" % (fr, r.randint(0, 255)))
                lines.append("(with-handler (lambda (e) (verif-emit 'err)) (bytes-push! %s 7))" % fr)
                em("(list b %s)" % fr)
            elif k == 6:
                a1, a2 = r.randint(0, 4), r.randint(0, 7)
                em("(with-handler (lambda (e) 'err) (bytes-copy b%s))" % r.choice(["", " %d" % a1, " %d %d" % (a1, a2)]))
            elif k == 7:
                em("(list (equal? b (bytes-copy b)) (equal? (list b) (list (bytes-copy b))) (equal? (list->bytes (bytes->list b)) b))")
            else:
                em("b")
    else:
        lines.append("(define s \"%s\")" % r.choice(["", "a", "hello", "xyz", "\u00e9 hello world", "\u03bbx\u2192y z", "ab\u65e5\u672c\u8a9ecd", "na\u00efve caf\u00e9"]))
        for _ in range(n):
            k = r.randrange(8)
            if k == 5:
                a, b = sorted((r.randint(0, 6), r.randint(0, 12)))
                em("(with-handler (lambda (e) 'err) (string->list (substring s %d %d)))" % (a, b))
                continue
            if k == 6:
                em("(with-handler (lambda (e) 'err) (map char->integer (string->list s)))")
                continue
            if k == 7:
                em("(list (string<? s \"hello\") (string=? (substring s 0 (string-length s)) s) (equal? (string-append s \"\") s))")
                continue
            if k == 0:
                lines.append("(set! s (string-append s \"%s\"))" % r.choice(["", "b", "cd"]))
            elif k == 1:
                em("(string-length s)")
            elif k == 2:
                a, b = sorted((r.randint(0, 6), r.randint(0, 12)))
                em("(with-handler (lambda (e) 'err) (substring s %d %d))" % (a, b))
            elif k == 3:
                em("(string=? s \"hello\")")
            else:
                em("(string->list s)")
    return "\n".join(lines)


def main(tier):
    R.ALLOW_MUTABLE_VECTOR_KEYS = True
    rep = core.Reporter("C11", tier)
    npairs, nseq, ndag = (2500, 800, 20) if tier == "quick" else (200000, 60000, 300)
    r = core.rng("C11")
    texts = []
    for _ in range(npairs):
        texts.append(("equality", equality_program(r)))
    for _ in range(nseq):
        texts.append(("sequence", seq_program(r)))
    for _ in range(ndag):
        texts.append(("dag", dag_program(r, r.choice([8, 12, 16]) if tier == "quick" else r.choice([12, 16, 20]))))
    progs = []
    discarded = 0
    for kind, t in texts:
        try:
            forms = R.parse(t)
            ref = R.reference(forms, fuel=400000)
        except Exception:
            ref = None
        if ref is None or ref["outcome"] != "ok":
            discarded += 1
            continue
        progs.append((kind, R.program_source(forms), ref))
    rep.note("programs_discarded_by_the_reference", discarded)
    rep.coverage["rule"] = (
        "equality: values of all constructible kinds nested to depth 4 with explicit sharing (sub-values bound once and used "
        "several times), compared with an equal-but-separately-built twin, the identical value, or a one-leaf perturbation, "
        "plus symmetry / transitivity probes and use as hash-map key / hash-set member; dag: diamond DAGs of depth 8-20 "
        "(tree expansion up to 2^20); sequence: seeded operation sequences on lists, vectors, hash maps, hash sets, strings with "
        "boundary indices, empties, duplicate keys, collection keys; distinct by source text")
    bykind = {}
    for kind, src, ref in progs:
        bykind[kind] = bykind.get(kind, 0) + 1
        rep.nontrivial(src)
    rep.note("programs_by_kind", bykind)
    for cname, env, opts in (("top", {}, {}), ("module", {}, {"as_module": True}), ("top-nojit", {"STEEL_JIT": "false"}, {})):
        cases = []
        for i, (kind, src, ref) in enumerate(progs):
            c = {"id": "p%d" % i, "units": [src], "timeout_ms": 60000}
            c.update(opts)
            cases.append(c)
        cases_by_id = {c["id"]: c for c in cases}
        results, meta = core.run_cases(cases, env=env, tag="c11")
        for i, (kind, src, ref) in enumerate(progs):
            res = results.get("p%d" % i)
            if res is None:
                continue
            rep.count()
            exp = c01.expected(ref)
            replay = {"config": env, "opts": opts, "src": src, "expected": list(exp)}
            if res["status"] == "timeout":
                again = core.retry_alone(cases_by_id["p" + str(i)], env=env, tag="c11r")
                if again is not None and again["status"] == "ok":
                    rep.inconclusive_note("a time-out in the loaded batch was not reproduced alone (" + cname + ")")
                    res = again
            if res["status"] != "ok":
                rep.violation("C11 %s: engine process %s" % (kind, res["status"]), "config=%s\n%s" % (cname, src[:800]), replay)
                continue
            u = res["units"][0]
            got = c01.observe(u)
            if got != exp:
                attr = c01.attribute(R.parse(src), c01.diff_kind(exp, got, u), u, bool(opts.get("as_module")))
                rep.violation("C11 %s" % attr if attr else "C11 %s: %s" % (kind, describe(kind, exp, got, u, src)),
                              "config=%s %s\nprogram:\n%s" % (cname, c01.first_diff(exp, got), src[:1200]), replay)
            elif len(rep.coverage["samples"]) < 6 and kind not in [s["kind"] for s in rep.coverage["samples"]]:
                rep.sample({"kind": kind, "config": cname, "program": src[:500], "emitted": exp[1][:5]})
    rep.assumptions += ["structural equality = equality of the canonical rendering (exact and inexact numbers differ; mutable and "
                        "immutable vectors are not compared with each other)"]
    return rep.finish()


def describe(kind, exp, got, u, src):
    k = c01.diff_kind(exp, got, u)
    if kind == "equality":
        # which probe disagrees
        for e, g in zip(exp[1], got[1]):
            if e != g:
                ee, gg = e.split(), g.split()
                names = ["(equal? a b)", "(equal? b a)", "(equal? a a)", "(equal? b c)", "(equal? a c)"] if len(ee) == 6 else \
                    ["hash-contains?", "hashset-contains?", "hash-try-get"]
                bad = [names[i] for i, (x, y) in enumerate(zip(ee[1:], gg[1:])) if x.strip(")") != y.strip(")") and i < len(names)]
                kinds = sorted({w for w in ("hashset", "(hash ", "vector", "immutable-vector", "cons", "vf-pt", "1.5", "0.0", "1/2") if w in src})
                return "%s differs from structural equality (value kinds: %s)" % ("/".join(bad[:2]) or "probe", ",".join(kinds) or "atoms")
    return k


def replay(path):
    d = json.load(open(path))["replay"]
    c = {"id": "r", "units": [d["src"]], "timeout_ms": 60000}
    c.update(d.get("opts") or {})
    res, _ = core.run_cases([c], env=d.get("config"), shards=1)
    r = res["r"]
    print(json.dumps(r, indent=1)[:3000])
    got = list(c01.observe(r["units"][0])) if r["status"] == "ok" and r["units"] else ["died"]
    print("expected", d["expected"])
    if got != d["expected"]:
        print("VIOLATION property=C11 replay=%s" % path)
        return 1
    return 0
