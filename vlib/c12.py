"""C12 — reading is total and inverse to writing.

(A) steel-parser driven directly on hostile texts: no panic / crash, every reported span inside the
    text and on character boundaries, parse(print(parse t)) == parse t with spans erased.
(B) write -> read round trip of generated data through the real engine, compared through the
    harness's canonical rendering (doubles by bit pattern)."""
import json
import re

from . import core, textgen


# ------------------------------------------------------------------------------------------ part B: data

def sx_string(cps):
    return "(list->string (map integer->char (list %s)))" % " ".join(str(c) for c in cps)


def rand_scalar(r):
    k = r.random()
    if k < 0.45:
        return r.randint(0x20, 0x7e)
    if k < 0.6:
        return r.choice([0, 7, 8, 9, 10, 13, 27, 0x7f, 0x22, 0x5c, 0x7c, 0x20, 0x28, 0x29, 0x3b, 0x23, 0x27, 0x60, 0x2c, 0x2e, 0x85,
                         0xa0, 0x200b, 0x2028, 0xfeff, 0x1680, 0x3000])
    if k < 0.8:
        return r.choice([r.randint(0x80, 0x7ff), r.randint(0x800, 0xd7ff), r.randint(0xe000, 0xffff)])
    return r.randint(0x10000, 0x10ffff)


def gen_datum(r, depth=0):
    """Returns (class, constructor-expression)."""
    k = r.random()
    if depth > 3:
        k *= 0.62
    if k < 0.12:
        from .c10 import gen_int
        return "int", str(gen_int(r))
    if k < 0.18:
        from .c10 import gen_rat, lit
        return "rat", lit(gen_rat(r))
    if k < 0.30:
        from .c10 import gen_float, lit
        import math
        f = gen_float(r)
        if math.isnan(f):
            return "nan", "(/ 0.0 0.0)"
        return "float", lit(f)
    if k < 0.315:
        from .c10 import gen_int, gen_rat, gen_float, lit
        import math

        def part():
            q = r.random()
            if q < 0.4:
                return lit(r.randint(-9, 9) or 1)
            if q < 0.55:
                return lit(gen_rat(r))
            f = gen_float(r)
            return "1.5" if math.isnan(f) else lit(f)
        return "complex", "(make-rectangular %s %s)" % (part(), part())
    if k < 0.34:
        return "bool", r.choice(["#t", "#f"])
    if k < 0.42:
        return "char", "(integer->char %d)" % rand_scalar(r)
    if k < 0.52:
        n = r.choice([0, 1, 1, 2, 3, 5, 12])
        return "string", sx_string([rand_scalar(r) for _ in range(n)])
    if k < 0.62:
        kind = r.random()
        if kind < 0.4:
            name = r.choice(["a", "foo", "list", "x1", "+", "-", "...", "->x", "a.b", "λ", "set!", "hello-world", "<=?", "%internal"])
            return "symbol-plain", "'%s" % name
        if kind < 0.5:
            name = r.choice(["1", "-1", "1.5", "+inf.0", "1/2", ".", "#t", "#f", "#\\a", "1e5", "+", "-", "..", "+i", "#x10"])
            return "symbol-lexes-as-other", "(string->symbol \"%s\")" % name.replace("\\", "\\\\")
        n = r.choice([0, 1, 2, 3, 6])
        return "symbol-arbitrary", "(string->symbol %s)" % sx_string([rand_scalar(r) for _ in range(n)])
    if k < 0.74:
        n = r.choice([0, 1, 2, 3, 4])
        items = [gen_datum(r, depth + 1)[1] for _ in range(n)]
        return "list", "(list %s)" % " ".join(items)
    if k < 0.80:
        n = r.choice([1, 2, 3])
        items = [gen_datum(r, depth + 1)[1] for _ in range(n)]
        tail = gen_datum(r, depth + 2)[1]
        e = tail
        for it in reversed(items):
            e = "(cons %s %s)" % (it, e)
        return "improper", e
    if k < 0.88:
        n = r.choice([0, 1, 2, 3])
        items = [gen_datum(r, depth + 1)[1] for _ in range(n)]
        return "vector", "(%s %s)" % (r.choice(["vector", "immutable-vector"]), " ".join(items))
    if k < 0.93:
        n = r.choice([0, 1, 3, 8])
        return "bytevector", "(bytes %s)" % " ".join(str(r.randint(0, 255)) for _ in range(n))
    q = r.choice(["quote", "quasiquote", "unquote", "unquote-splicing"])
    return "quotation", "(list '%s %s)" % (q, gen_datum(r, depth + 1)[1])


PRELUDE = "(define (wr d) (let ((p (open-output-string))) (write d p) (get-output-string p)))"


def norm_canon(c):
    return c.replace("(MV", "(V")


def datum_signature(cls, expr, written, why):
    return "C12 write/read %s: %s" % (cls, why)


def classify_datum(cls, c0, c1, written):
    """Name the failure mode for the signature."""
    if re.search(r"#\d+=", written) and "#0#" in written:
        return "write emits #n= datum labels that read does not understand"
    if c1 is None:
        return "read-error"
    if "#%unquote" in c1 and "#%unquote" not in c0:
        return "unquote form nested in a quasiquote form is read back as #%unquote"
    if cls.startswith("symbol"):
        return "symbol needing |..| quoting is written bare"
    if cls == "float" and c0.startswith("f:8000000000000000"):
        return "negative zero read back as positive zero"
    return "datum differs after round trip"


def run_data(rep, n):
    r = core.rng("C12", "data")
    cases = []
    meta = {}
    for i in range(n):
        cls, expr = gen_datum(r)
        cid = "d%d" % i
        meta[cid] = (cls, expr)
        cases.append({"id": cid, "timeout_ms": 20000, "units": [
            PRELUDE, "(define d %s)" % expr, "(define s (wr d))", "(list s d)", "(read (open-input-string s))"]})
    results, m = core.run_cases(cases, tag="c12d")
    for e in m["harness_errors"]:
        rep.inconclusive_note("harness: %s" % e)
    by_class = {}
    for cid, (cls, expr) in meta.items():
        res = results.get(cid)
        if res is None:
            continue
        rep.count()
        us = res["units"]
        if res["status"] != "ok":
            rep.violation("C12 write/read %s: process %s" % (cls, res["status"]), "expr=%s" % expr, {"expr": expr})
            continue
        if len(us) < 5 or not all(u.get("ok") for u in us[:4]):
            bad = [u for u in us[:4] if not u.get("ok")]
            if bad and bad[0].get("panics"):
                rep.violation("C12 write %s: panic at %s" % (cls, bad[0]["panics"][0][0].rsplit(":", 1)[0]),
                              "expr=%s" % expr, {"expr": expr})
            else:
                rep.add("construction_failed")
            continue
        vals = us[3]["vals"][-1]
        m2 = re.match(r'^\(L s:("(?:[^"\\]|\\.)*") (.*)\)$', vals, re.S)
        if not m2:
            rep.add("unparsed_record")
            continue
        written, c0 = m2.group(1), m2.group(2)
        by_class[cls] = by_class.get(cls, 0) + 1
        rep.nontrivial((cls, c0))
        u4 = us[4]
        c1 = u4["vals"][-1] if u4.get("ok") and u4.get("vals") else None
        if u4.get("panics"):
            rep.violation("C12 read %s: panic at %s" % (cls, u4["panics"][0][0].rsplit(":", 1)[0]),
                          "expr=%s written=%s" % (expr, written), {"expr": expr})
            continue
        if c1 is not None and norm_canon(c0) == norm_canon(c1):
            if len(rep.coverage["samples"]) < 5:
                rep.sample({"datum_expr": expr, "written": written, "read_back_canonical": c1})
            continue
        # find which leaf class is responsible: use the outer class unless it is a container
        why = classify_datum(cls, c0, c1, written)
        leaf = cls
        if cls in ("list", "improper", "vector", "quotation"):
            leaf = "container"
            if why.startswith("write emits") or why.startswith("unquote form"):
                pass
            elif "(- 0.0)" in expr and c1 is not None and \
                    norm_canon(c0).replace("f:8000000000000000", "f:0000000000000000") == norm_canon(c1):
                why = "negative zero read back as positive zero"
            elif "string->symbol" in expr:
                why = "symbol needing |..| quoting is written bare"
        rep.violation("C12 write/read %s: %s" % (leaf, why),
                      "expr=%s written=%s value=%s read_back=%s err=%s" % (expr, written, c0[:200], (c1 or "")[:200], u4.get("err", "")),
                      {"kind": "datum", "expr": expr})
    rep.note("data_by_class", by_class)


# ------------------------------------------------------------------------------------------ part A: texts

def run_texts(rep, n, nfiles):
    r = core.rng("C12", "text")
    texts = []
    for i in range(n):
        texts.append(textgen.gen_text(r))
    for sp in textgen.SEED_PROGRAMS:
        texts.append(("program", sp))
    files = textgen.repo_scheme_files()
    r.shuffle(files)
    for p in files[:nfiles]:
        try:
            texts.append(("repo-file:" + p[len(core.REPO) + 1:], open(p, encoding="utf-8", errors="replace").read()))
        except OSError:
            pass
    per = 200
    cases = []
    index = {}
    for b in range(0, len(texts), per):
        chunk = texts[b:b + per]
        cid = "t%d" % b
        index[cid] = chunk
        stack = {}
        cases.append({"id": cid, "texts": [t for _, t in chunk], "timeout_ms": 120000})
    results, m = core.run_cases(cases, subcmd="parse", tag="c12t")
    for e in m["harness_errors"]:
        rep.inconclusive_note("harness: %s" % e)
    by_class = {}
    outcomes = {"ok": 0, "err": 0}
    for cid, chunk in index.items():
        res = results.get(cid)
        if res is None:
            rep.inconclusive_note("no result for batch %s" % cid)
            continue
        recs = {x["i"]: x for x in res["recs"]}
        if "died_at" in res:
            k = res["died_at"]
            if 0 <= k < len(chunk):
                cls, t = chunk[k]
                if res["status"] == "timeout":
                    rep.violation("C12 parser does not return (%s)" % cls, "text=%r" % t[:300], {"kind": "text", "text": t})
                else:
                    rep.violation("C12 parser kills the process: %s (%s)" % (res["status"], cls.split(":")[0]),
                                  "text=%r stderr=%s" % (t[:300], res.get("stderr_tail", "")[-200:]), {"kind": "text", "text": t})
        for k, (cls, t) in enumerate(chunk):
            x = recs.get(k)
            if x is None:
                continue
            rep.count()
            c0 = cls.split(":")[0]
            by_class[c0] = by_class.get(c0, 0) + 1
            if "panic" in x:
                loc = x["panic"][0].rsplit(":", 1)[0]
                rep.violation("C12 parser panic at %s: %s" % (loc, x["panic"][1][:50]), "text=%r" % t[:300],
                              {"kind": "text", "text": t})
                continue
            if "bad_span" in x:
                rep.violation("C12 span outside text or off a char boundary (%s)" % ("ok" if x.get("ok") else x.get("err", "")[:30]),
                              "span=%s text=%r" % (x["bad_span"], t[:300]), {"kind": "text", "text": t})
            if x.get("ok"):
                outcomes["ok"] += 1
                if x.get("n", 0) > 0:
                    rep.nontrivial(("ok", t))
                rt = x.get("roundtrip")
                if "reparse_panic" in x:
                    rep.violation("C12 parser panic on printed tree at %s" % x["reparse_panic"][0].rsplit(":", 1)[0],
                                  "text=%r printed=%r" % (t[:200], x.get("printed")), {"kind": "text", "text": t})
                elif c0 in PROGRAM_CLASSES:
                    # the print -> parse clause is about *programs*: judged on shipped and well-formed sources only
                    rep.add("programs_roundtripped")
                    if rt in ("reparse-error", "tree-differs"):
                        rep.violation("C12 print/parse: %s" % roundtrip_cause(x, t),
                                      "source=%s printed=%r reparse_err=%s d1=%s d2=%s" % (
                                          cls, (x.get("printed") or "")[:200], x.get("reparse_err"), x.get("d1"), x.get("d2")),
                                      {"kind": "text", "text": t})
                    elif len(rep.coverage["samples"]) < 8 and x.get("n", 0) > 0 and len(t) < 300:
                        rep.sample({"text": t, "class": cls, "exprs": x["n"], "spans_checked": x.get("nspans"), "roundtrip": rt})
                elif len(rep.coverage["samples"]) < 4 and x.get("n", 0) > 0 and len(t) < 120:
                    rep.sample({"text": t, "class": cls, "exprs": x["n"], "spans_checked": x.get("nspans")})
            else:
                outcomes["err"] += 1
                rep.nontrivial(("err", x.get("err"), t))
    rep.note("texts_by_class", by_class)
    rep.note("parse_outcomes", outcomes)


PROGRAM_CLASSES = ("repo-file", "program")


def roundtrip_cause(x, text):
    """Name the root cause of a print/parse mismatch (the signature of a finding is the cause, not the file)."""
    d1, d2 = x.get("d1") or "", x.get("d2") or ""
    err = x.get("reparse_err") or ""
    printed = x.get("printed") or ""
    if "rest: true" in d1 and "rest: false" in d2:
        return "lambda rest-argument list is printed without its dot"
    if ("improper: true" in d1 and "improper: false" in d2) or "Identifier(.)" in d1:
        return "dotted (improper) list is printed as a proper list"
    if "unexpected char '#'" in err:
        return "lowered named-let is printed with ###N identifiers that do not lex"
    if "invalid escape" in err or "unclosed hex escape" in err or err == "Unexpected EOF" or "StringLiteral" in d1[:80]:
        return "string literal is printed without escapes"
    if re.match(r"\w*Literal\(", d1) and re.match(r"\w*Literal\(", d2) and ('"' in d1[:600] or "\\" in d1[:600]):
        # the excerpts start at the first difference, inside a StringLiteral( whose text contains a quote or a backslash
        return "string literal is printed without escapes"
    if re.search(r"Quote\(Quote|ty: Quote", d1 + d2):
        return "quoted datum containing quote forms is printed ambiguously"
    if "CharacterLiteral" in d1[:120] or "invalid character name" in err:
        return "character literal is printed in a form the lexer rejects or reads differently"
    m = re.findall(r"ty: (\w+)", d1)
    return "other (%s; near %s)" % (err[:40] or "tree differs", m[0] if m else "?")


def main(tier):
    rep = core.Reporter("C12", tier)
    nt, nd, nf = (60000, 16000, 150) if tier == "quick" else (3000000, 400000, 100000)
    rep.coverage["rule"] = (
        "texts: seeded random bytes (lossy-decoded), random Unicode, lexer-alphabet token soup, balanced soup, mutants of "
        "valid programs, literal stress (radix/exactness prefixes, ratios, exponents, chars, escapes, |sym|, quote "
        "shorthands, dotted tails, #u8, comments), deep nesting, plus .scm files shipped in /repo; data: generated "
        "numbers/booleans/chars/strings/symbols with arbitrary Unicode, proper/improper lists, vectors, bytevectors, "
        "quotation forms, nested. distinct = by text / by (class, canonical value); non-trivial = text produced >=1 "
        "expression or a parse error with a span, datum was written and read")
    run_texts(rep, nt, nf)
    run_data(rep, nd)
    rep.assumptions += ["harness compares trees through their Debug rendering with Span records erased",
                        "invalid UTF-8 cannot be submitted through the &str API: bytes are lossy-decoded first",
                        "mutable and immutable vectors are identified in the write/read comparison"]
    if rep.coverage["evaluations"] < 5000:
        rep.inconclusive_note("fewer than 5000 texts/data observed", floor=True)
    return rep.finish()


def replay(path):
    d = json.load(open(path))["replay"]
    rep = core.Reporter("C12", "quick")
    if d.get("kind") == "text":
        results, _ = core.run_cases([{"id": "r", "texts": [d["text"]]}], subcmd="parse", shards=1)
        print(json.dumps(results.get("r"), indent=1))
        x = (results.get("r") or {}).get("recs") or [{}]
        bad = results["r"]["status"] != "ok" or any(k in x[0] for k in ("panic", "bad_span", "reparse_panic")) or \
            x[0].get("roundtrip") in ("reparse-error", "tree-differs")
    else:
        results, _ = core.run_cases([{"id": "r", "units": [PRELUDE, "(define d %s)" % d["expr"], "(define s (wr d))",
                                                             "(list s d)", "(read (open-input-string s))"]}], shards=1)
        us = results["r"]["units"]
        print(json.dumps(us, indent=1))
        bad = True
        if len(us) == 5 and us[4].get("ok"):
            m2 = re.match(r'^\(L s:("(?:[^"\\]|\\.)*") (.*)\)$', us[3]["vals"][-1], re.S)
            bad = not (m2 and norm_canon(m2.group(2)) == norm_canon(us[4]["vals"][-1]))
    if bad:
        print("VIOLATION property=C12 replay=%s" % path)
        return 1
    return 0
