"""C13 — syntax-rules macros are hygienic and referentially transparent.

Metamorphic + differential monitoring.  A seeded scenario is a program made of global helpers, a
set of macro definitions drawn from parametric families (temporaries, named-let loops, recursive
macros, literals, nested ellipses, dotted patterns, macros whose templates use other macros,
macro-defining macros, macros expanding to definitions) and use sites inside local scopes.  Every
identifier in the scenario carries a *role* (binder introduced by the template of macro k, user
variable j, global, builtin) and a base spelling drawn from one small pool, so that independent
bindings collide in spelling all the time.  The scenario is rendered twice:

  colliding : every role is written with its base spelling (what a user would write);
  apart     : every template-introduced binder and every user variable gets its own spelling.

Oracle 1 (meaning): the apart program is expanded by the plain substitution expander of
vlib.macroexp (with no shared spellings naive and hygienic expansion coincide) and evaluated by the
reference machine: that is the expected observable behaviour.  The engine must produce it for the
apart text (pattern matching, ellipsis binding, template instantiation) **and** for the colliding
text (hygiene / referential transparency), at top level, as a module, and with the macros imported
from another module.  Oracle 2 (uses that match no rule): the unit is rejected with an error - no
panic, no hang, no effect.  A divergence of the colliding text only is attributed to the smallest set
of roles that must be spelled apart to make it disappear (greedy), which names the colliding pair."""
import json
import os

from . import core, schemeref as R, macroexp as MX
from . import c01

S = R.Sym
DOT = R.DOT

POOL = ["tmp", "t", "x", "loop", "acc", "result", "v", "n", "i", "helper", "list", "car", "reverse", "apply", "limit", "it"]
SHADOWABLE_BUILTINS = ["list", "car", "reverse", "apply"]      # used by templates, never by generated user code


class Id:
    """An identifier occurrence with a role.  role: ('m', k) binder introduced by the template of macro k;
    ('u', j) user variable; ('g',) global helper; anything else is written as is."""
    __slots__ = ("role", "base")

    def __init__(self, role, base):
        self.role = role
        self.base = base

    def key(self):
        return self.role

    def spell(self, apart):
        if self.role[0] in ("m", "u") and (apart is True or (apart and self.role in apart)):
            return "%s%d_%s" % (self.role[0], self.role[1], self.base)
        return self.base


def render(x, apart):
    if isinstance(x, Id):
        return x.spell(apart)
    if isinstance(x, list):
        return "(" + " ".join(render(e, apart) for e in x) + ")"
    if x is DOT:
        return "."
    if x is True:
        return "#t"
    if x is False:
        return "#f"
    if isinstance(x, S):
        return str(x)
    if isinstance(x, str):
        return x          # raw text fragment
    return str(x)


def roles_of(x, out=None):
    out = {} if out is None else out
    if isinstance(x, Id):
        if x.role[0] in ("m", "u"):
            out.setdefault(x.role, x.base)
    elif isinstance(x, list):
        for e in x:
            roles_of(e, out)
    return out


class Scenario:
    def __init__(self, r):
        self.r = r
        self.nm = 0
        self.nu = 0
        self.defs = []        # top-level forms: globals and macro definitions (ASTs)
        self.uses = []
        self.families = {}    # macro keyword -> (family, macro index)
        self.role_kind = {}   # role -> description
        self.g_helper = None

    # -- roles
    def mrole(self, family):
        self.nm += 1
        return ("m", self.nm), family

    def temp(self, mk, family, base=None):
        base = base or self.r.choice(POOL)
        i = Id(mk, base)
        self.role_kind[mk] = "binder introduced by the template of %s" % family
        return i

    def uvar(self, base=None, what="user variable"):
        self.nu += 1
        role = ("u", self.nu)
        self.role_kind[role] = what
        return Id(role, base or self.r.choice(POOL))

    # -- macro families (each returns the keyword; definitions are appended to self.defs)
    def want(self, family):
        if family in self.families:
            return S(family)
        getattr(self, "fam_" + family.replace("-", "_").replace("!", "_bang").replace("*", "_star"))()
        return S(family)

    def defmacro(self, name, literals, rules):
        self.defs.append([S("define-syntax"), S(name), [S("syntax-rules"), [S(l) for l in literals]] + [[p, t] for p, t in rules]])
        self.families[name] = True

    def fam_swap_bang(self):
        mk, fam = self.mrole("swap!")
        T = self.temp(mk, fam)
        self.defmacro("swap!", [], [([S("_"), S("?a"), S("?b")], [S("let"), [[T, S("?a")]], [S("set!"), S("?a"), S("?b")], [S("set!"), S("?b"), T]])])

    def fam_my_or(self):
        mk, fam = self.mrole("my-or")
        T = self.temp(mk, fam)
        self.defmacro("my-or", [], [([S("_")], False), ([S("_"), S("?e")], S("?e")),
                                    ([S("_"), S("?e"), S("?r"), S("...")], [S("let"), [[T, S("?e")]], [S("if"), T, T, [S("my-or"), S("?r"), S("...")]]])])

    def fam_my_and(self):
        self.defmacro("my-and", [], [([S("_")], True), ([S("_"), S("?e")], S("?e")),
                                     ([S("_"), S("?e"), S("?r"), S("...")], [S("if"), S("?e"), [S("my-and"), S("?r"), S("...")], False])])

    def fam_while(self):
        mk, fam = self.mrole("while")
        L = self.temp(mk, fam, self.r.choice(["loop", "loop", "lp", "tmp", "i"]))
        self.defmacro("while", [], [([S("_"), S("?c"), S("?body"), S("...")],
                                     [S("let"), L, [], [S("when"), S("?c"), S("?body"), S("..."), [L]]])])

    def fam_for_range(self):
        mk, fam = self.mrole("for-range")
        L = self.temp(mk, fam, self.r.choice(["loop", "i", "tmp"]))
        LIM = self.temp(mk, fam, self.r.choice(["limit", "n", "i", "tmp"]))
        if LIM.base == L.base:
            LIM = Id(mk, "limit")
        self.defmacro("for-range", [], [([S("_"), [S("?var"), S("?from"), S("?to")], S("?body"), S("...")],
                                         [S("let"), L, [[S("?var"), S("?from")], [LIM, S("?to")]],
                                          [S("when"), [S("<"), S("?var"), LIM], S("?body"), S("..."), [L, [S("+"), S("?var"), 1], LIM]]])])

    def fam_my_let_star(self):
        self.defmacro("my-let*", [], [([S("_"), [], S("?body"), S("...")], [S("let"), [], S("?body"), S("...")]),
                                      ([S("_"), [[S("?n"), S("?v")], S("?rest"), S("...")], S("?body"), S("...")],
                                       [S("let"), [[S("?n"), S("?v")]], [S("my-let*"), [S("?rest"), S("...")], S("?body"), S("...")]])])

    def fam_my_let(self):
        self.defmacro("my-let", [], [([S("_"), [[S("?n"), S("?v")], S("...")], S("?body"), S("...")],
                                      [[S("lambda"), [S("?n"), S("...")], S("?body"), S("...")], S("?v"), S("...")])])

    def helper(self):
        if self.g_helper is None:
            self.g_helper = Id(("g",), self.r.choice(["helper", "helper", "aux", "tmp"]))
            x = S("hx")
            self.defs.insert(0, [S("define"), [self.g_helper, x], [S("+"), x, 1000]])
        return self.g_helper

    def fam_use_helper(self):
        h = self.helper()
        self.defmacro("use-helper", [], [([S("_"), S("?e")], [h, S("?e")])])

    def fam_sum_list(self):
        mk, fam = self.mrole("sum-list")
        T = self.temp(mk, fam)
        self.defmacro("sum-list", [], [([S("_"), S("?e"), S("...")], [S("let"), [[T, [S("list"), S("?e"), S("...")]]], [S("apply"), S("+"), [S("reverse"), T]]])])

    def fam_first_plus(self):
        # uses builtins car/list as free identifiers of the template
        self.defmacro("first-plus", [], [([S("_"), S("?a"), S("?b")], [S("+"), [S("car"), [S("list"), S("?a"), S("?b")]], S("?b")])])

    def fam_pair_up(self):
        # a macro whose template uses another macro; both introduce a binder, often with the same spelling
        mkb, famb = self.mrole("pair-inner")
        TB = self.temp(mkb, famb)
        self.defmacro("pair-inner", [], [([S("_"), S("?a"), S("?b")], [S("let"), [[TB, S("?b")]], [S("+"), [S("*"), S("?a"), 100], TB]])])
        mka, fama = self.mrole("pair-up")
        TA = self.temp(mka, fama, TB.base if self.r.random() < 0.6 else None)
        self.defmacro("pair-up", [], [([S("_"), S("?x"), S("?y")], [S("let"), [[TA, S("?x")]], [S("pair-inner"), TA, S("?y")]])])

    def fam_or_via(self):
        # template binds a temporary and hands it to my-or, whose own temporary may have the same spelling
        self.want("my-or")
        mk, fam = self.mrole("or-via")
        T = self.temp(mk, fam, self.r.choice(["t", "tmp", "x"]) if self.r.random() < 0.7 else None)
        self.defmacro("or-via", [], [([S("_"), S("?x")], [S("let"), [[T, S("?x")]], [S("my-or"), False, T]])])

    def fam_inc_all(self):
        mk, fam = self.mrole("inc-all")
        T = self.temp(mk, fam)
        self.defmacro("inc-all", [], [([S("_"), S("?e"), S("...")], [S("let"), [[T, 1]], [S("apply"), S("+"), [S("list"), [S("+"), S("?e"), T], S("...")]]])])

    def fam_my_cond(self):
        mk, fam = self.mrole("my-cond")
        T = self.temp(mk, fam)
        self.defmacro("my-cond", ["else", "=>"], [
            ([S("_"), [S("else"), S("?e")]], S("?e")),
            ([S("_"), [S("?c"), S("=>"), S("?f")], S("?r"), S("...")], [S("let"), [[T, S("?c")]], [S("if"), T, [S("?f"), T], [S("my-cond"), S("?r"), S("...")]]]),
            ([S("_"), [S("?c"), S("?e")], S("?r"), S("...")], [S("if"), S("?c"), S("?e"), [S("my-cond"), S("?r"), S("...")]])])

    def fam_def_adder(self):
        # macro-defining macro: the generated macro's template introduces a binder
        mk, fam = self.mrole("def-adder")
        T = self.temp(mk, fam)
        self.defmacro("def-adder", [], [([S("_"), S("?name"), S("?k")],
                                         [S("define-syntax"), S("?name"), [S("syntax-rules"), [], [[S("_"), S("?e")], [S("let"), [[T, S("?k")]], [S("+"), T, S("?e")]]]]])])

    def fam_def_const(self):
        # macro-defining macro without pattern variables in the generated macro; its template introduces a binder
        mk, fam = self.mrole("def-const")
        T = self.temp(mk, fam)
        self.defmacro("def-const", [], [([S("_"), S("?name"), S("?k")],
                                         [S("define-syntax"), S("?name"), [S("syntax-rules"), [], [[S("_")], [S("let"), [[T, S("?k")]], [S("+"), T, 1]]]]])])

    def fam_def_pair(self):
        mk, fam = self.mrole("def-pair")
        T = self.temp(mk, fam)
        self.defmacro("def-pair", [], [([S("_"), S("?a"), S("?b"), S("?v")],
                                        [S("begin"), [S("define"), S("?a"), S("?v")], [S("define"), S("?b"), [S("let"), [[T, S("?v")]], [S("+"), T, 1]]]])])

    @staticmethod
    def nc(e):
        """a binding initialiser that is not a bare constant: a let that binds a constant next to another binding is
        miscompiled on the unchanged tree (finding C01-F01), which is not what this check is about"""
        return [S("+"), e, 0] if isinstance(e, int) else e

    @staticmethod
    def ext(env, new):
        """env extended by new user variables; an older variable of the same spelling is shadowed in the colliding text,
        so it must not be referenced any more (the two renderings would not be alpha-equivalent)"""
        bases = {v.base for v in new}
        return [v for v in env if v.base not in bases] + list(new)

    # -- use-site expressions (all integer valued)
    def expr(self, env, depth):
        r = self.r
        if depth <= 0 or r.random() < 0.2:
            if env and r.random() < 0.7:
                return r.choice(env)
            if getattr(self, "const", None) is not None and r.random() < 0.3:
                return [self.const]
            return r.randint(0, 9)
        k = r.randrange(16)
        e = lambda: self.expr(env, depth - 1)
        if k == 0:
            return [S("+"), e(), e()]
        if k == 1:
            vs = [self.uvar() for _ in range(r.randint(1, 2))]
            if len({v.base for v in vs}) < len(vs):
                vs = vs[:1]
            return [S("let"), [[v, self.nc(e())] for v in vs], self.expr(self.ext(env, vs), depth - 1)]
        if k == 2:
            self.want("my-or")
            return [S("my-or"), False, e()] if r.random() < 0.7 else [S("my-or"), [S("if"), [S(">"), e(), 4], False, 1], e(), e()]
        if k == 3 and len(env) >= 2:
            self.want("swap!")
            a, b = r.sample(env, 2)
            if a.base == b.base:
                return e()
            return [S("begin"), [S("swap!"), a, b], [S("+"), a, [S("+"), b, b]]]
        if k == 4:
            self.want("use-helper")
            return [S("use-helper"), e()]
        if k == 5:
            self.want("sum-list")
            return [S("sum-list")] + [e() for _ in range(r.randint(0, 3))]
        if k == 6:
            self.want("while")
            i, acc = self.uvar(r.choice(["i", "loop", "tmp", "n"])), self.uvar(r.choice(["acc", "loop", "result", "t"]))
            if i.base == acc.base:
                acc = self.uvar("total")
            body = self.expr(self.ext(env, [i, acc]), depth - 2)
            return [S("let"), [[i, 0], [acc, 0]], [S("while"), [S("<"), i, r.randint(1, 3)], [S("set!"), acc, [S("+"), acc, body]], [S("set!"), i, [S("+"), i, 1]]], acc]
        if k == 7:
            self.want("for-range")
            v, acc = self.uvar(r.choice(["i", "loop", "limit", "n"])), self.uvar(r.choice(["acc", "limit", "loop", "tmp"]))
            if v.base == acc.base:
                acc = self.uvar("total")
            body = self.expr(self.ext(env, [v, acc]), depth - 2)
            return [S("let"), [[acc, 0]], [S("for-range"), [v, 0, r.randint(1, 3)], [S("set!"), acc, [S("+"), acc, body]]], acc]
        if k == 8:
            self.want("my-let*")
            a, b = self.uvar(), self.uvar()
            if a.base == b.base:
                return e()
            return [S("my-let*"), [[a, self.nc(e())], [b, self.nc(self.expr(self.ext(env, [a]), depth - 1))]], self.expr(self.ext(env, [a, b]), depth - 1)]
        if k == 9:
            self.want("my-let")
            a, b = self.uvar(), self.uvar()
            if a.base == b.base:
                return e()
            return [S("my-let"), [[a, self.nc(e())], [b, self.nc(e())]], self.expr(self.ext(env, [a, b]), depth - 1)]
        if k == 10:
            self.want("pair-up")
            return [S("pair-up"), e(), e()]
        if k == 11:
            self.want("or-via")
            return [S("or-via"), e()]
        if k == 12:
            self.want("inc-all")
            return [S("inc-all")] + [e() for _ in range(r.randint(1, 3))]
        if k == 13:
            self.want("my-cond")
            if r.random() < 0.5:
                return [S("my-cond"), [[S(">"), e(), 4], e()], [S("else"), e()]]
            return [S("my-cond"), [[S("if"), [S(">"), e(), 4], e(), False], S("=>"), [S("lambda"), [S("cv")], [S("+"), S("cv"), 1]]], [S("else"), e()]]
        if k == 14:
            # a local scope that shadows a free identifier of some template (global helper or builtin) with a number
            which = r.choice(["helper", "builtin", "builtin"])
            if which == "helper":
                self.want("use-helper")
                u = self.uvar(self.g_helper.base, "user variable spelled like the template's free global")
                inner = [S("+"), u, [S("use-helper"), self.expr(self.ext(env, [u]), depth - 2)]]
            else:
                fam = r.choice(["sum-list", "first-plus"])
                self.want(fam)
                u = self.uvar(r.choice(SHADOWABLE_BUILTINS), "user variable spelled like a builtin the template uses")
                call = [S("sum-list"), e(), e()] if fam == "sum-list" else [S("first-plus"), e(), e()]
                inner = [S("+"), u, call]
            return [S("let"), [[u, r.randint(1, 9)]], inner]
        self.want("my-and")
        return [S("if"), [S("my-and"), [S(">"), e(), 2], [S("<"), e(), 900]], e(), e()]

    def build(self):
        r = self.r
        nuse = r.randint(2, 4)
        tops = []
        self.helper()
        # macro-defining macros / definition-producing macros, used at top level
        self.adder = None
        self.const = None
        k = r.random()
        if k < 0.08:
            # (on the unchanged tree every such scenario fails - finding F04 - so it is kept rare)
            self.want("def-adder")
            name = "add-%d" % r.randint(1, 9)
            tops.append([S("def-adder"), S(name), r.randint(1, 9)])
            self.adder = S(name)
        elif k < 0.4:
            self.want("def-const")
            name = "const-%d" % r.randint(1, 9)
            tops.append([S("def-const"), S(name), r.randint(1, 9)])
            self.const = S(name)
        genv = []
        if r.random() < 0.4:
            self.want("def-pair")
            a, b = self.uvar(what="user global defined through a macro"), self.uvar(what="user global defined through a macro")
            if a.base != b.base and a.base not in SHADOWABLE_BUILTINS and b.base not in SHADOWABLE_BUILTINS and \
                    (self.g_helper is None or self.g_helper.base not in (a.base, b.base)):
                tops.append([S("def-pair"), a, b, r.randint(1, 9)])
                genv = [a, b]
        for _ in range(nuse):
            if r.random() < 0.35:
                # inside a function whose parameters are user variables
                ps = [self.uvar() for _ in range(r.randint(1, 3))]
                if len({p.base for p in ps}) < len(ps):
                    ps = ps[:1]
                fname = S("f%d" % len(self.uses))
                body = self.expr(self.ext(genv, ps), 3)
                if self.adder is not None and r.random() < 0.5:
                    body = [self.adder, body]
                self.uses.append([S("define"), [fname] + ps, body])
                self.uses.append([S("verif-emit"), [fname] + [r.randint(0, 9) for _ in ps]])
            else:
                body = self.expr(genv, 4)
                if self.adder is not None and r.random() < 0.5:
                    body = [self.adder, body]
                self.uses.append([S("verif-emit"), body])
        self.tops = tops
        # globals spelled like user variables would be ordinary redefinition, not a hygiene question: a user top-level
        # variable may not be spelled like the helper
        return self

    def forms(self):
        return self.defs + self.tops + self.uses


# ------------------------------------------------------------------------------------------- pattern-matching scenarios

def datum(r, depth):
    if depth <= 0 or r.random() < 0.5:
        return r.randint(0, 9)
    return [datum(r, depth - 1) for _ in range(r.randint(0, 3))]


def pattern_program(r):
    """Macros whose whole point is which sub-forms each pattern variable receives; inputs are quoted by the template."""
    q = lambda t: [S("quote"), t]
    fams = {
        "flat": ([], [([S("_"), [S("a"), S("b"), S("...")], S("...")], [S("list"), [S("list"), q(S("a")), q([S("b"), S("...")])], S("...")])]),
        "flat2": ([], [([S("_"), [S("a"), S("b"), S("...")], S("...")], q([[S("b"), S("..."), S("a")], S("...")]))]),
        "tailpat": ([], [([S("_"), S("a"), S("..."), S("y"), S("z")], q([[S("a"), S("...")], S("y"), S("z")]))]),
        "dot": ([], [([S("_"), S("a"), S("b"), DOT, S("rest")], q([S("a"), S("b"), S("rest")]))]),
        "dots": ([], [([S("_"), [S("a"), DOT, S("b")], S("...")], q([[S("b"), S("a")], S("...")]))]),
        "tails": ([], [([S("_"), [S("a"), DOT, S("b")], S("...")], q([S("b"), S("...")]))]),
        "tails2": ([], [([S("_"), [[S("k"), DOT, S("v")], S("...")], S("...")], q([[S("v"), S("...")], S("...")]))]),
        "heads2": ([], [([S("_"), [[S("k"), DOT, S("v")], S("...")], S("...")], q([[S("k"), S("...")], S("...")]))]),
        # a depth-2 variable used twice in one step of the outer ellipsis (once under its own ellipsis inside a list
        # sub-template, once more afterwards)
        "twice": ([], [([S("_"), [S("a"), S("b"), S("...")], S("...")], q([[[S("a"), S("b")], S("..."), [S("b"), S("...")]], S("...")]))]),
        "twice2": ([], [([S("_"), [S("a"), S("b"), S("...")], S("...")], q([[[S("b"), S("b")], S("..."), S("a"), S("b"), S("...")], S("...")]))]),
        # a nested proper-list pattern listed before the dotted one: a dotted use must take the second rule
        "pairs": ([], [([S("_"), [S("a"), S("b")]], q([S("proper"), S("a"), S("b")])), ([S("_"), [S("a"), DOT, S("b")]], q([S("dotted"), S("a"), S("b")]))]),
        # nested proper sub-pattern under an ellipsis: a use with a dotted element matches no rule
        "pairs-each": ([], [([S("_"), [S("k"), S("v")], S("...")], q([[S("k"), DOT, S("v")], S("...")]))]),
        "three": ([], [([S("_"), [[S("a"), S("b"), S("...")], S("...")], S("...")], q([[[S("b"), S("..."), S("a")], S("...")], S("...")]))]),
        "split": (["=>"], [([S("_"), S("x"), S("..."), S("=>"), S("y"), S("...")], q([[S("x"), S("...")], [S("y"), S("...")]])),
                           ([S("_"), S("x"), S("...")], q([S("none"), S("x"), S("...")]))]),
        "cases": ([], [([S("_")], q(S("zero"))), ([S("_"), S("a")], q([S("one"), S("a")])), ([S("_"), S("a"), S("b")], q([S("two"), S("a"), S("b")])),
                       ([S("_"), S("a"), S("b"), S("c"), S("...")], q([S("many"), S("a"), [S("c"), S("...")]]))]),
        "lit": (["else"], [([S("_"), [S("else"), S("a")]], q([S("else-clause"), S("a")])), ([S("_"), [S("a"), S("b")]], q([S("plain"), S("a"), S("b")]))]),
        "const": ([], [([S("_"), 1, S("a")], q([S("starts-with-one"), S("a")])), ([S("_"), S("b"), S("a")], q([S("other"), S("b"), S("a")]))]),
    }
    name = r.choice(sorted(fams))
    lits, rules = fams[name]
    forms = [[S("define-syntax"), S(name), [S("syntax-rules"), [S(l) for l in lits]] + [[p, t] for p, t in rules]]]
    for _ in range(r.randint(2, 4)):
        if name in ("tails2", "heads2"):
            args = [[[datum(r, 0), DOT, datum(r, 1)] if r.random() < 0.7 else [datum(r, 0)] + [datum(r, 0) for _ in range(r.randint(0, 2))]
                     for _ in range(r.choice([0, 0, 1, 2, 3]))] for _ in range(r.randint(0, 4))]
        elif name == "tails":
            args = [[datum(r, 0), DOT, datum(r, 1)] if r.random() < 0.6 else [datum(r, 0)] + [datum(r, 0) for _ in range(r.randint(0, 2))]
                    for _ in range(r.choice([0, 0, 1, 2, 3]))]
        elif name in ("twice", "twice2"):
            args = [[datum(r, 0)] + [datum(r, 1) for _ in range(r.choice([0, 1, 2, 3]))] for _ in range(r.randint(1, 4))]
        elif name == "pairs":
            args = [r.choice([[datum(r, 0), datum(r, 1)], [datum(r, 0), DOT, datum(r, 0)], [datum(r, 0), DOT, [datum(r, 0), datum(r, 0)]],
                              [datum(r, 0), datum(r, 0), datum(r, 0)]])]
        elif name == "pairs-each":
            args = [[datum(r, 0), datum(r, 1)] if r.random() < 0.8 else [datum(r, 0), DOT, datum(r, 0)] for _ in range(r.randint(0, 3))]
        elif name in ("flat", "flat2", "dots"):
            args = [[datum(r, 1) for _ in range(r.randint(0 if name != "dots" else 1, 4))] for _ in range(r.randint(0, 3))]
            if name == "dots" and r.random() < 0.4 and args:
                args[0] = [datum(r, 0), DOT, datum(r, 1)]
        elif name == "three":
            args = [[[datum(r, 0) for _ in range(r.randint(0, 3))] for _ in range(r.randint(0, 2))] for _ in range(r.randint(0, 3))]
        elif name == "split":
            args = [datum(r, 1) for _ in range(r.randint(0, 3))] + ([S("=>")] if r.random() < 0.7 else []) + [datum(r, 1) for _ in range(r.randint(0, 2))]
        elif name == "lit":
            args = [[S("else") if r.random() < 0.5 else datum(r, 0), datum(r, 1)]] if r.random() < 0.85 else [datum(r, 1)]
        elif name == "const":
            args = [r.choice([1, 1, 2, [1]]), datum(r, 1)]
        else:
            args = [datum(r, 1) for _ in range(r.randint(0, 5))]
            if name == "dot" and r.random() < 0.3 and len(args) >= 2:
                args = args[:2] + [DOT, datum(r, 0)]
        forms.append([S("verif-emit"), [S(name)] + args])
    return name, forms


# ------------------------------------------------------------------------------------------- macros through a module chain

def chain_program(r, moddir, idx):
    """library module L (functions, some provided under a contract) <- macro module M (requires L, provides macros whose
    templates call L's functions and M's own private helper) <- user file (requires M only, has unrelated definitions
    and local bindings spelled like those functions).  -> (user text, expected emits, files)"""
    names = r.sample(["area", "scale", "helper", "tmp", "norm", "size", "weight"], 3)
    lib_a, lib_b, priv = names
    ca, cb, cp = r.randint(1, 9), r.randint(1, 9), r.randint(1, 9)
    contract_a = r.random() < 0.6
    contract_b = r.random() < 0.3
    d = os.path.join(moddir, "chain%d" % idx)
    os.makedirs(d, exist_ok=True)
    prov = []
    for n, c in ((lib_a, contract_a), (lib_b, contract_b)):
        prov.append("(contract/out %s (->/c number? number?))" % n if c else n)
    lib = "(provide %s)\n(define (%s x) (+ (* x x) %d))\n(define (%s x) (+ (* 10 x) %d))\n" % (" ".join(prov), lib_a, ca, lib_b, cb)
    open(os.path.join(d, "lib.scm"), "w").write(lib)
    wrap = (lambda n: "(for-syntax %s)" % n) if r.random() < 0.5 else (lambda n: n)
    mac = ('(require "lib.scm")\n(provide %s %s %s)\n(define (%s x) (+ x %d))\n'
           '(define-syntax use-a (syntax-rules () ((_ e) (list (quote a) (%s e)))))\n'
           '(define-syntax use-b (syntax-rules () ((_ e) (list (quote b) (%s e)))))\n'
           '(define-syntax use-p (syntax-rules () ((_ e) (let ((t e)) (list (quote p) (%s (%s t)))))))\n') % (
        wrap("use-a"), wrap("use-b"), wrap("use-p"), priv, 100 * cp, lib_a, lib_b, priv, lib_a)
    open(os.path.join(d, "macros.scm"), "w").write(mac)
    fa = lambda x: x * x + ca
    fb = lambda x: 10 * x + cb
    fp = lambda x: x + 100 * cp
    lines = ['(require "%s")' % os.path.join(d, "macros.scm")]
    exp = []
    style = r.choice(["top-define", "local-let", "parameter", "none", "top-define"])
    shadowed = r.sample([lib_a, lib_b, priv], r.randint(1, 3))
    x1, x2, x3 = r.randint(0, 9), r.randint(0, 9), r.randint(0, 9)
    if style == "top-define":
        for n in shadowed:
            lines.append("(define (%s x) (quote user-%s))" % (n, n))
    calls = "(list (use-a %d) (use-b %d) (use-p %d))" % (x1, x2, x3)
    if style == "local-let":
        calls = "(let (%s) %s)" % (" ".join("(%s (lambda (x) (quote local)))" % n for n in shadowed), calls)
    elif style == "parameter":
        lines.append("(define (in-scope %s) %s)" % (" ".join(shadowed), calls))
        calls = "(in-scope %s)" % " ".join("0" for _ in shadowed)
    lines.append("(verif-emit %s)" % calls)
    exp.append("(L (L y:\"a\" i:%d) (L y:\"b\" i:%d) (L y:\"p\" i:%d))" % (fa(x1), fb(x2), fp(fa(x3))))
    return "\n".join(lines), ("ok", exp, ""), {"lib.scm": lib, "macros.scm": mac, "dir": d, "style": style, "shadowed": shadowed,
                                               "contract": [contract_a, contract_b]}


# ------------------------------------------------------------------------------------------------------------- oracle

def expected_of(forms_ast):
    """Reference meaning of a scenario: apart rendering -> plain expansion -> reference machine.
    Returns (expected triple, note) or (None, reason)."""
    text = "\n".join(render(f, True) for f in forms_ast)
    try:
        parsed = R.parse(text)
        out = MX.Expander().program(parsed)
    except MX.ExpandError as e:
        return ("err", [], ""), "no rule matches"
    except (MX.Unsupported, RecursionError) as e:
        return None, "expander: %s" % e
    try:
        ref = R.reference(out, fuel=200000)
    except Exception as e:
        return None, "reference: %s" % e
    if ref is None:
        return None, "reference: order-sensitive / fuel / outside subset"
    return tuple(c01.expected(ref)), None


ERRS = {}


def run_texts(texts, env, opts, tag):
    """-> observations; the error text of an erring unit is remembered in ERRS[text] (for classification only)"""
    cases = []
    for i, t in enumerate(texts):
        c = {"id": "p%d" % i, "units": [t], "timeout_ms": 30000}
        c.update(opts)
        cases.append(c)
    results, meta = core.run_cases(cases, env=env, tag=tag)
    out = []
    for i in range(len(texts)):
        res = results.get("p%d" % i)
        if res is None:
            out.append(None)
        elif res["status"] != "ok" or not res["units"]:
            out.append(("died:" + res["status"], [], ""))
        else:
            u = res["units"][0]
            o = c01.observe(u)
            if u.get("err"):
                ERRS[texts[i]] = u["err"]
            if u.get("panics"):
                o = ("panic:" + core.panic_sig(u["panics"][0]), o[1], o[2])
            out.append(tuple(o))
    return out


def roles_of_sc(sc):
    roles = {}
    for f in sc.forms():
        roles_of(f, roles)
    return roles


def module_split(sc, apart, moddir, idx):
    """Macros and helpers go to a module file that provides the macros only; the use sites require it."""
    names = [str(d[1]) for d in sc.defs if d[0] == "define-syntax"]
    if not names:
        return "\n".join(render(f, apart) for f in sc.tops + sc.uses), ""
    modtext = "(provide %s)\n%s\n" % (" ".join("(for-syntax %s)" % n for n in names), "\n".join(render(f, apart) for f in sc.defs))
    path = os.path.join(moddir, "m%s.scm" % idx)
    with open(path, "w") as f:
        f.write(modtext)
    return '(require "%s")\n%s' % (path, "\n".join(render(f, apart) for f in sc.tops + sc.uses)), modtext


F01 = "F01 a binder introduced by one macro's template captures the same-spelled identifier introduced by another macro's template (templates that use other macros)"
F02 = "F02 a user binding at the use site captures a free identifier of the template (a global or a builtin): templates are not referentially transparent"
F03 = "F03 a template-introduced binder spelled like a free identifier of the same template renames the free use as well (FreeIdentifier ##name)"
F04 = "F04 a macro whose expansion defines a macro that has pattern variables is rejected (FreeIdentifier: the generated macro's pattern variable)"


F05 = ("F05 a macro-defining macro imported from a module generates a macro whose template's free identifiers (even builtins such as +) "
       "are mangled with the module prefix and are unbound at the use site (FreeIdentifier ##mm..__%#__+)")


def kind_of_role(sc, role):
    d = sc.role_kind.get(role, "?")
    if d.startswith("binder introduced"):
        return "tb"
    if d.startswith("user global"):
        return "ug"
    return "uv"


def labels_for(sc, roles, apart):
    """Root-cause labels of a 1-minimal set of roles that must be spelled apart."""
    free = set(SHADOWABLE_BUILTINS) | ({sc.g_helper.base} if sc.g_helper is not None else set())
    labels = set()
    for c in apart:
        k = kind_of_role(sc, c)
        base = roles[c]
        partners = {kind_of_role(sc, o) for o, b in roles.items() if b == base and o != c}
        if k in ("uv", "ug"):
            if base in free:
                labels.add(F02)
            elif "tb" in partners:
                labels.add("a template-introduced binder and a user identifier of the same spelling capture one another (plain hygiene)")
            else:
                labels.add("user identifier %s collides with nothing the generator knows of" % base)
        else:
            if "tb" in partners and base in free:
                labels.add(F01 + " / " + F03[4:])
            elif "tb" in partners:
                labels.add(F01)
            elif base in free:
                labels.add(F03)
            elif partners & {"uv", "ug"}:
                labels.add("a template-introduced binder and a user identifier of the same spelling capture one another (plain hygiene)")
            else:
                labels.add("template-introduced binder %s collides with nothing the generator knows of" % base)
    return sorted(labels)


def attribute_batch(failing, env, opts, render_fn):
    """For every failing colliding scenario, a 1-minimal set of roles that have to be spelled apart for the
    divergence to disappear: greedy removal from the all-apart rendering (which behaves), all scenarios advanced
    in lock step so that each round is one batch of engine runs.  -> {index: (culprit roles, labels)}"""
    state = {}
    for idx, sc, exp in failing:
        roles = {}
        for f in sc.forms():
            roles_of(f, roles)
        state[idx] = {"sc": sc, "exp": exp, "roles": roles, "order": sorted(roles), "apart": set(roles), "k": 0}
    while True:
        todo = [(idx, st) for idx, st in state.items() if st["k"] < len(st["order"])]
        if not todo:
            break
        texts = [render_fn(idx, st["sc"], st["apart"] - {st["order"][st["k"]]}) for idx, st in todo]
        got = run_texts(texts, env, opts, "c13a")
        for (idx, st), g in zip(todo, got):
            if g == st["exp"]:
                st["apart"].discard(st["order"][st["k"]])
            st["k"] += 1
    return {idx: (sorted(st["apart"]), labels_for(st["sc"], st["roles"], st["apart"])) for idx, st in state.items()}


CONFIGS = [("top", {}, {}), ("module", {}, {"as_module": True}), ("top-nojit", {"STEEL_JIT": "false"}, {})]


def main(tier):
    rep = core.Reporter("C13", tier)
    nsc, npat = (300, 400) if tier == "quick" else (40000, 20000)
    if os.environ.get("VERIF_C13_N"):
        nsc, npat = [int(x) for x in os.environ["VERIF_C13_N"].split(",")]
    r = core.rng("C13")
    moddir = core.scratch_dir("c13")
    rep.coverage["rule"] = (
        "hygiene scenarios: 1-8 macro definitions from 15 parametric families (temporaries, named-let loops, recursive macros, "
        "literals, ellipses, templates that use other macros, macro-defining macros, macros expanding to definitions) + 2-4 use "
        "sites in local scopes; every identifier drawn from one pool of 16 spellings; each scenario run as colliding and as "
        "apart text, at top level, as a module, with the JIT off, and with the macros imported from a module; pattern "
        "scenarios: 10 pattern families (nested ellipses to depth 3, tail patterns, dotted patterns, literals, constants) on "
        "seeded argument shapes including uses that match no rule; distinct by colliding source text; non-trivial = at least "
        "two distinct roles share a spelling in the colliding text (hygiene) / the use list is non-empty (patterns)")
    scen = []
    discarded = {}
    for _ in range(nsc):
        sc = Scenario(r).build()
        exp, why = expected_of(sc.forms())
        if exp is None:
            discarded[why.split(":")[0]] = discarded.get(why.split(":")[0], 0) + 1
            continue
        scen.append((sc, exp))
    pats = []
    for _ in range(npat):
        name, forms = pattern_program(r)
        exp, why = expected_of(forms)
        if exp is None:
            discarded[why.split(":")[0]] = discarded.get(why.split(":")[0], 0) + 1
            continue
        pats.append((name, forms, exp))
    rep.note("scenarios_discarded", discarded)
    fam_count = {}
    collisions = 0
    for sc, exp in scen:
        for f in sc.families:
            fam_count[f] = fam_count.get(f, 0) + 1
        roles = {}
        for f in sc.forms():
            roles_of(f, roles)
        bases = list(roles.values()) + ([sc.g_helper.base] if sc.g_helper is not None else [])
        if len(set(bases)) < len(bases) or any(b in SHADOWABLE_BUILTINS for b in bases):
            collisions += 1
            rep.nontrivial("\n".join(render(f, False) for f in sc.forms()))
    rep.note("scenarios_by_macro_family", fam_count)
    rep.note("scenarios_with_a_spelling_collision", collisions)
    pfam = {}
    for name, forms, exp in pats:
        pfam[name] = pfam.get(name, 0) + 1
        rep.nontrivial("\n".join(render(f, False) for f in forms))
    rep.note("pattern_programs_by_family", pfam)
    rep.note("pattern_programs_expected_to_be_rejected", sum(1 for p in pats if p[2][0] == "err" and not p[2][1]))
    def judge(where, cname, env, opts, texts_a, texts_c, render_fn, extra=None):
        got_a = run_texts(texts_a, env, opts, "c13")
        got_c = run_texts(texts_c, env, opts, "c13")
        failing = [(i, sc, exp) for i, (sc, exp) in enumerate(scen)
                   if got_a[i] is not None and got_c[i] is not None and got_a[i] == exp and got_c[i] != exp]
        attributed = attribute_batch(failing, env, opts, render_fn)
        for i, (sc, exp) in enumerate(scen):
            for mode, got, text in (("apart", got_a[i], texts_a[i]), ("colliding", got_c[i], texts_c[i])):
                if got is None:
                    continue
                rep.count()
                if got == exp:
                    continue
                replay = {"config": env, "opts": opts, "src": text, "expected": list(exp)}
                if extra:
                    replay.update(extra(i, mode))
                kind = c01.first_diff(exp, got)
                fams = "+".join(sorted(sc.families))
                if mode == "colliding" and got_a[i] == exp:
                    culprits, labels = attributed.get(i, ([], []))
                    for lab in labels or ["colliding text differs, not explained by respelling"]:
                        rep.violation("C13 hygiene%s: %s" % (where, lab), "config=%s %s\ncolliding program:\n%s\n\nsmallest set of roles that must be spelled apart: %s" % (
                            cname, kind, text[:1800], ["%s%d_%s" % (c[0], c[1], roles_of_sc(sc)[c]) for c in culprits]), replay)
                    continue
                if mode == "colliding":
                    continue      # the apart text already fails: reported once, for the apart text
                err = ERRS.get(text, "")
                if where and got[0] == "err" and "FreeIdentifier" in err and "##mm" in err and "__%#__" in err and \
                        ("def-const" in sc.families or "def-adder" in sc.families):
                    rep.violation("C13 expansion%s: %s" % (where, F05), "config=%s families=%s %s\nerror: %s\nprogram:\n%s" % (cname, fams, kind, err[:200], text[:1500]), replay)
                    continue
                if "def-adder" in sc.families and got[0] == "err" and not got[1]:
                    rep.violation("C13 expansion%s: %s" % (where, F04), "config=%s families=%s %s\nprogram:\n%s" % (cname, fams, kind, text[:1500]), replay)
                    continue
                what = got[0] if got[0].startswith(("died", "panic")) else ("outcome %s instead of %s" % (got[0], exp[0]) if got[0] != exp[0] else "wrong value")
                rep.violation("C13 expansion%s (spellings apart): %s" % (where, what), "config=%s families=%s %s\nprogram:\n%s" % (cname, fams, kind, text[:1500]), replay)

    for cname, env, opts in CONFIGS:
        apart_texts = ["\n".join(render(f, True) for f in sc.forms()) for sc, exp in scen]
        coll_texts = ["\n".join(render(f, False) for f in sc.forms()) for sc, exp in scen]
        judge("", cname, env, opts, apart_texts, coll_texts, lambda idx, sc, ap: "\n".join(render(f, ap) for f in sc.forms()))
        # pattern programs
        ptexts = ["\n".join(render(f, False) for f in forms) for name, forms, exp in pats]
        got_p = run_texts(ptexts, env, opts, "c13p")
        for i, (name, forms, exp) in enumerate(pats):
            got = got_p[i]
            if got is None:
                continue
            rep.count()
            if exp[0] == "err" and not exp[1]:
                # must be rejected: any error outcome without effects is right; a panic, a crash or a success is not
                ok = got[0] == "err" and not got[1]
            else:
                ok = got == exp
            if not ok:
                what = got[0] if got[0].startswith(("died", "panic")) else ("accepted a use that matches no rule" if exp[0] == "err" and got[0] == "ok" else
                                                                            "rejected a use that matches a rule" if got[0] == "err" and exp[0] == "ok" else "wrong sub-forms bound")
                rep.violation("C13 pattern %s: %s" % (name, what), "config=%s %s\nprogram:\n%s" % (cname, c01.first_diff(exp, got), ptexts[i][:1200]),
                              {"config": env, "opts": opts, "src": ptexts[i], "expected": list(exp)})
            elif len(rep.coverage["samples"]) < 4 and name not in [s.get("family") for s in rep.coverage["samples"]]:
                rep.sample({"family": name, "config": cname, "program": ptexts[i][:400], "emitted": list(exp[1])[:3]})
    # macros imported from a module (top-level requirer only)
    mod_a = [module_split(sc, True, moddir, "%da" % i)[0] for i, (sc, exp) in enumerate(scen)]
    mod_c = [module_split(sc, False, moddir, "%dc" % i)[0] for i, (sc, exp) in enumerate(scen)]
    trial_no = [0]

    def render_mod(idx, sc, ap):
        trial_no[0] += 1
        return module_split(sc, ap, moddir, "%dt%d" % (idx, trial_no[0]))[0]

    def extra(i, mode):
        text = (mod_a if mode == "apart" else mod_c)[i]
        if not text.startswith("(require"):
            return {}
        path = text.split('"')[1]
        return {"module_file": path, "module_text": open(path).read()}
    judge(" (macros imported from a module)", "import", {}, {}, mod_a, mod_c, render_mod, extra)
    # macros whose free identifiers come from a third module (plain and contract/out provides), used next to unrelated
    # user definitions of the same spelling
    nchain = 60 if tier == "quick" else 3000
    chains = [chain_program(r, moddir, i) for i in range(nchain)]
    got = run_texts([c[0] for c in chains], {}, {}, "c13c")
    chain_styles = {}
    for (text, exp, info), g in zip(chains, got):
        if g is None:
            continue
        rep.count()
        chain_styles[info["style"]] = chain_styles.get(info["style"], 0) + 1
        rep.nontrivial(text + info["lib.scm"] + info["macros.scm"])
        if g != exp:
            what = g[0] if g[0].startswith(("died", "panic")) else ("outcome %s instead of %s" % (g[0], exp[0]) if g[0] != exp[0] else "wrong value")
            rep.violation("C13 module chain (user shadows by %s; contract-provided: %s): %s" % (
                info["style"], "yes" if any(info["contract"]) else "no", what),
                "%s\nerror: %s\nlib.scm:\n%s\nmacros.scm:\n%s\nuser:\n%s" % (c01.first_diff(exp, g), ERRS.get(text, "")[:200], info["lib.scm"], info["macros.scm"], text),
                {"config": {}, "opts": {}, "src": text, "expected": list(exp), "files": {os.path.join(info["dir"], "lib.scm"): info["lib.scm"],
                                                                                        os.path.join(info["dir"], "macros.scm"): info["macros.scm"]}})
    rep.note("module_chain_programs_by_shadowing_style", chain_styles)
    if len(rep.coverage["samples"]) < 6 and scen:
        sc, exp = scen[0]
        rep.sample({"colliding": "\n".join(render(f, False) for f in sc.forms())[:700], "apart": "\n".join(render(f, True) for f in sc.forms())[:700], "emitted": list(exp[1])})
    rep.assumptions += ["with all binders spelled apart plain substitution equals hygienic expansion (vlib.macroexp); the reference "
                        "machine gives the meaning of the expanded program",
                        "identifiers carrying Steel's reserved renaming prefix are never generated (the statement excludes them)"]
    if len(scen) < nsc // 3:
        rep.inconclusive_note("only %d hygiene scenarios accepted by the reference" % len(scen), floor=True)
    return rep.finish()


def replay(path):
    d = json.load(open(path))["replay"]
    for path, text in (d.get("files") or {}).items():
        os.makedirs(os.path.dirname(path), exist_ok=True)
        with open(path, "w") as f:
            f.write(text)
    if d.get("module_file"):
        os.makedirs(os.path.dirname(d["module_file"]), exist_ok=True)
        with open(d["module_file"], "w") as f:
            f.write(d["module_text"])
    c = {"id": "r", "units": [d["src"]], "timeout_ms": 30000}
    c.update(d.get("opts") or {})
    res, _ = core.run_cases([c], env=d.get("config"), shards=1)
    r = res["r"]
    print(json.dumps(r, indent=1)[:3000])
    got = list(c01.observe(r["units"][0])) if r["status"] == "ok" and r["units"] else ["died"]
    print("expected", d["expected"])
    print("observed", got)
    exp = d["expected"]
    bad = (got[0] != "err" or got[1]) if (exp[0] == "err" and not exp[1]) else got != exp
    if bad:
        print("VIOLATION property=C13 replay=%s" % path)
        return 1
    return 0
