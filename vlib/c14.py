"""C14 — modules expose exactly what they provide and are instantiated once.

Generated acyclic module graphs (2..8 files in a scratch directory) with deliberately overlapping
private names (`helper`, `secret`, `state`), provided functions that call their own privates and the
provided functions of their dependencies, every require modifier (plain, only-in, only-in with
renaming, prefix-in, prefix-in over only-in), diamonds, and contracts attached at the boundary.
A history of top-level evaluations on ONE engine requires subsets of the graph in a seeded order
(including one evaluation that fails at compile time in the middle).  Oracles: (i) a model of name
visibility computed from the graph decides, for every probe, the expected value or "must be
rejected"; (ii) every module body calls the host function (verif-tick "<module>") - the harness's
tick table must show exactly 1 for every module that was (transitively) required, 0 otherwise;
(iii) a contracted function rejects an ill-typed argument at the boundary while the same call made
*inside* the providing module is not checked."""
import json
import os
import shutil

from . import core


class Mod:
    def __init__(self, name):
        self.name = name
        self.deps = []          # (Mod, spec) spec = ("plain",) | ("only", [names]) | ("rename", {orig: new}) | ("prefix", p) | ("prefix-only", p, [names])
        self.consts = {}
        self.provided = []      # function names
        self.private = []
        self.contracted = None
        self.text = ""


def visible_from(spec, dep):
    """name in the requiring scope -> (module, original name)"""
    kind = spec[0]
    if kind == "plain":
        return {n: (dep, n) for n in dep.provided}
    if kind == "only":
        return {n: (dep, n) for n in spec[1]}
    if kind == "rename":
        return {new: (dep, orig) for orig, new in spec[1].items()}
    if kind == "prefix":
        return {spec[1] + n: (dep, n) for n in dep.provided}
    if kind == "prefix-only":
        return {spec[1] + n: (dep, n) for n in spec[2]}
    raise ValueError(kind)


def spec_source(spec, path):
    kind = spec[0]
    if kind == "plain":
        return '(require "%s")' % path
    if kind == "only":
        return '(require (only-in "%s" %s))' % (path, " ".join(spec[1]))
    if kind == "rename":
        return '(require (only-in "%s" %s))' % (path, " ".join("(%s %s)" % (o, n) for o, n in spec[1].items()))
    if kind == "prefix":
        return '(require (prefix-in %s "%s"))' % (spec[1], path)
    return '(require (prefix-in %s (only-in "%s" %s)))' % (spec[1], path, " ".join(spec[2]))


def gen_spec(r, dep, tag):
    k = r.random()
    names = list(dep.provided)
    if k < 0.35 or not names:
        return ("plain",)
    if k < 0.55:
        return ("only", r.sample(names, r.randint(1, len(names))))
    if k < 0.7:
        sub = r.sample(names, r.randint(1, len(names)))
        return ("rename", {n: "%s-as-%s" % (n, tag) for n in sub})
    if k < 0.85:
        return ("prefix", "%s." % tag)
    return ("prefix-only", "%s:" % tag, r.sample(names, r.randint(1, len(names))))


def model_call(mod, fn, x):
    """Value of (fn x) as defined in module mod."""
    kind, payload = mod.defs[fn]
    if kind == "own":
        c, k = payload
        return x + c + x * k          # (+ x c (helper x)) with helper = (* x k)
    if kind == "via":
        c, vname, (dep, orig) = payload
        if vname in mod.assigned:      # the module assigned its alias before anyone could call this function
            return c + mod.assigned[vname] * (x + 1)
        return c + model_call(dep, orig, x + 1)
    if kind == "assigned-alias":
        return payload * x
    raise ValueError(kind)


def gen_graph(r, d, nmods):
    mods = []
    for i in range(nmods):
        m = Mod("m%d" % i)
        m.defs = {}
        m.assigned = {}
        k_help = r.randint(2, 9)
        lines = []
        # dependencies on earlier modules (acyclic; diamonds arise naturally)
        scope = {}
        for dep in r.sample(mods, r.randint(0, min(3, len(mods)))):
            spec = gen_spec(r, dep, "d%s" % dep.name)
            vis = visible_from(spec, dep)
            if any(n in scope for n in vis):
                continue
            scope.update(vis)
            m.deps.append((dep, spec))
            lines.append(spec_source(spec, os.path.join(d, dep.name + ".scm")))
        nfun = r.randint(1, 3)
        # function names overlap between modules on purpose (same spelling, different modules)
        fnames = r.sample(["alpha", "beta", "gamma", "delta", "compute", "step"], nfun)
        fnames = [n for n in fnames if n not in scope]
        if not fnames:
            fnames = ["f%d" % i]
        provided = []
        body = []
        body.append('(verif-tick "%s")' % m.name)
        body.append("(define secret %d)" % r.randint(100, 999))          # private, same spelling everywhere
        body.append("(define (helper x) (* x %d))" % k_help)               # private, same spelling everywhere
        for fn in fnames:
            if scope and r.random() < 0.5:
                vname = r.choice(sorted(scope))
                c = r.randint(1, 50)
                body.append("(define (%s x) (+ %d (%s (+ x 1))))" % (fn, c, vname))
                m.defs[fn] = ("via", (c, vname, scope[vname]))
            else:
                c = r.randint(1, 50)
                body.append("(define (%s x) (+ x %d (helper x)))" % (fn, c))
                m.defs[fn] = ("own", (c, k_help))
            provided.append(fn)
        if scope and r.random() < 0.25:
            # the importer assigns its *own alias* of an imported name: the provider's binding must be unaffected
            vname = r.choice(sorted(scope))
            mult = r.randint(100, 900)
            body.append("(set! %s (lambda (x) (* x %d)))" % (vname, mult))
            fn = "uses-assigned-alias-%d" % i
            body.append("(define (%s x) (%s x))" % (fn, vname))
            m.defs[fn] = ("assigned-alias", mult)
            m.assigned[vname] = mult
            provided.append(fn)
        # a private function that is NOT provided
        body.append("(define (hidden-%s x) (+ x secret))" % m.name)
        m.private = ["secret", "helper", "hidden-%s" % m.name]
        prov_src = list(provided)
        if r.random() < 0.5:
            # a contracted provide + an internal ill-typed call that must not be checked
            body.append("(define (checked x) (if (string? x) 'internal-string-ok (+ x 1)))")
            body.append("(define internal-result (checked \"not-a-number\"))")
            body.append("(define (get-internal-result) internal-result)")
            m.defs["get-internal-result"] = ("const", None)
            prov_src.append("(contract/out checked (->/c number? any/c))")
            prov_src.append("get-internal-result")
            # three domain positions with three different contracts (each argument is checked against its own)
            body.append("(define (checked3 a b c) (list a b c))")
            prov_src.append("(contract/out checked3 (->/c number? string? symbol? any/c))")
            m.contracted = "checked"
        m.provided = provided
        m.all_provided = provided + (["checked", "get-internal-result", "checked3"] if m.contracted else [])
        lines.insert(0, "(provide %s)" % " ".join(prov_src))
        m.text = "\n".join(lines + body) + "\n"
        with open(os.path.join(d, m.name + ".scm"), "w") as f:
            f.write(m.text)
        mods.append(m)
    return mods


def closure(mod, acc=None):
    acc = acc if acc is not None else set()
    if mod.name in acc:
        return acc
    acc.add(mod.name)
    for dep, _ in mod.deps:
        closure(dep, acc)
    return acc


def gen_history(r, d, mods):
    """Units (source, expectation) evaluated in order on one engine."""
    units = []
    required = set()
    engine_visible = set()      # names some earlier require made visible at this engine's top level
    for step in range(r.randint(3, 7)):
        m = r.choice(mods)
        mpath = os.path.join(d, m.name + ".scm")
        if m.name not in required and r.random() < 0.3:
            # the FIRST program that requires m compiles but does not link (unbound global): it is rejected as a whole,
            # and the correct require that follows must still instantiate m (exactly once)
            units.append(("fail-link-with-first-require", '(require "%s")\n(verif-emit \'never)\n(this-name-is-bound-nowhere-%d 1)' % (mpath, 50 + step),
                          ("err", None)))
        spec = gen_spec(r, m, "u%d" % step)
        if spec[0] in ("only", "rename", "prefix-only"):
            # only the plain provided functions are used in probes
            pass
        vis = visible_from(spec, m)
        engine_visible |= set(vis)
        if spec[0] in ("plain", "prefix") and m.contracted:
            engine_visible |= {(spec[1] if spec[0] == "prefix" else "") + n for n in ("checked", "get-internal-result", "checked3")}
        vis = {n: v for n, v in vis.items() if v[1] in m.provided}
        src = [spec_source(spec, os.path.join(d, m.name + ".scm"))]
        exp = []
        for n, (dep, orig) in sorted(vis.items()):
            x = r.randint(0, 9)
            src.append("(verif-emit (%s %d))" % (n, x))
            exp.append("i:%d" % model_call(dep, orig, x))
        if m.contracted and spec[0] == "plain":
            src.append("(verif-emit (checked 41))")
            exp.append("i:42")
            src.append("(verif-emit (get-internal-result))")
            exp.append('y:"internal-string-ok"')
        units.append(("require " + spec[0], "\n".join(src), ("ok", exp)))
        required |= closure(m)
        k = r.random()
        if k < 0.5:
            # a name that must NOT be visible: a private of the module, or a provided name hidden by the modifier
            hidden = list(m.private)
            if spec[0] in ("only", "prefix-only"):
                hidden += [n for n in m.provided if n not in (spec[1] if spec[0] == "only" else spec[2])]
            if spec[0] in ("prefix", "prefix-only", "rename"):
                hidden += list(m.provided)      # the unprefixed / unrenamed spelling
            hidden = [h for h in hidden if h not in engine_visible]
            if hidden:
                h = r.choice(hidden)
                units.append(("hidden-name", "(verif-emit 'before)\n(verif-emit (%s 1))" % h if not h == "secret" else "(verif-emit 'before)\n(verif-emit secret)", ("hidden", h)))
        elif k < 0.65 and m.contracted and spec[0] == "plain":
            units.append(("contract-boundary", "(verif-emit (with-handler (lambda (e) 'rejected-at-boundary) (checked \"not-a-number\")))",
                          ("ok", ['y:"rejected-at-boundary"'])))
        elif k < 0.75:
            units.append(("fail-compile", "(define junk 1)\n(this-name-is-bound-nowhere-%d 1)" % step, ("err", None)))
        if m.contracted and spec[0] == "plain" and r.random() < 0.5:
            probes = [("(checked3 1 \"s\" 'sym)", '(L i:1 s:"s" y:"sym")'), ("(checked3 1 \"s\" \"not-a-symbol\")", 'y:"rejected"'),
                      ("(checked3 1 'not-a-string 'sym)", 'y:"rejected"'), ("(checked3 \"x\" \"s\" 'sym)", 'y:"rejected"')]
            r.shuffle(probes)
            units.append(("contract-boundary-3", "\n".join("(verif-emit (with-handler (lambda (e) 'rejected) %s))" % c for c, _ in probes),
                          ("ok", [e for _, e in probes])))
        if m.provided and r.random() < 0.5:
            # the requirer is itself a module (how `steel file.scm` runs a file): only-in from inside a module
            keep = r.sample(m.provided, r.randint(1, len(m.provided)))
            x = r.randint(0, 9)
            if r.random() < 0.5:
                hidden = list(m.private) + [n for n in m.provided if n not in keep] + (["checked", "checked3", "get-internal-result"] if m.contracted else [])
                # (a module also sees the globals of the engine's top level: same exclusion as for top-level probes)
                hidden = [h for h in hidden if h not in engine_visible] or ["hidden-%s" % m.name]
                h = r.choice(hidden)
                text = '(require (only-in "%s" %s))\n(verif-emit \'client-before)\n(verif-emit %s)' % (mpath, " ".join(keep), "secret" if h == "secret" else "(%s 1)" % h)
                units.append(("hidden-name-in-module", {"module": text}, ("hidden", h)))
            else:
                text = '(require (only-in "%s" %s))\n(verif-emit (list %s))' % (mpath, " ".join(keep), " ".join("(%s %d)" % (n, x) for n in keep))
                units.append(("only-in-from-a-module", {"module": text}, ("ok", ["(L %s)" % " ".join("i:%d" % model_call(m, n, x) for n in keep)])))
    # two requires in ONE program, the earlier one restricted with only-in to a name that the later module provides too:
    # the later require must bring in exactly what *it* asks for, and the first name stays the first module's
    pairs = [(a, b, n) for a in mods for b in mods if a is not b for n in a.provided
             if n in b.provided and [g for g in b.provided if g not in a.provided and g not in engine_visible]]
    if pairs and r.random() < 0.8:
        a, b, n = r.choice(pairs)
        g = r.choice([g for g in b.provided if g not in a.provided and g not in engine_visible])
        pa, pb = os.path.join(d, a.name + ".scm"), os.path.join(d, b.name + ".scm")
        x = r.randint(0, 9)
        form = r.choice(['(require (only-in "%s" %s) (only-in "%s" %s))' % (pa, n, pb, g),
                         '(require (only-in "%s" %s))\n(require (only-in "%s" %s))' % (pa, n, pb, g),
                         '(require (only-in "%s" %s))\n(require (prefix-in later. "%s"))' % (pa, n, pb)])
        second = g if "later." not in form else "later." + g
        units.append(("two-requires-in-one-program", "%s\n(verif-emit (list (%s %d) (%s %d)))" % (form, n, x, second, x),
                      ("ok", ["(L i:%d i:%d)" % (model_call(a, n, x), model_call(b, g, x))])))
        required |= closure(a) | closure(b)
    return units, required


def add_macro_trio(r, d, mods, units, required, tag):
    """A module that exports a macro by plain provide; the macro's template is the only user of a name the module imports;
    the macro module is first compiled *indirectly* (through a module that requires it) and used directly afterwards."""
    k = r.randint(2, 9)
    texts = {
        "mh%s" % tag: '(provide mh-helper%s)\n(verif-tick "mh%s")\n(define (mh-helper%s x) (* x %d))\n' % (tag, tag, tag, k),
        "mm%s" % tag: '(require "%s")\n(provide mm-mac%s mm-f%s)\n(verif-tick "mm%s")\n(define-syntax mm-mac%s (syntax-rules () ((_ e) (mh-helper%s e))))\n(define (mm-f%s x) (+ x 1))\n' % (
            os.path.join(d, "mh%s.scm" % tag), tag, tag, tag, tag, tag, tag),
        "mo%s" % tag: '(require "%s")\n(provide mo-f%s)\n(verif-tick "mo%s")\n(define (mo-f%s x) (mm-f%s (+ x 1)))\n' % (
            os.path.join(d, "mm%s.scm" % tag), tag, tag, tag, tag),
    }
    for name, text in texts.items():
        m = Mod(name)
        m.text = text
        with open(os.path.join(d, name + ".scm"), "w") as f:
            f.write(text)
        mods.append(m)
        required.add(name)
    x = r.randint(1, 9)
    units.append(("macro-module-compiled-indirectly", '(require "%s")\n(verif-emit (mo-f%s %d))' % (os.path.join(d, "mo%s.scm" % tag), tag, x), ("ok", ["i:%d" % (x + 2)])))
    units.append(("macro-of-a-module-first-compiled-indirectly", '(require "%s")\n(verif-emit (list (mm-mac%s %d) (mm-f%s %d)))' % (
        os.path.join(d, "mm%s.scm" % tag), tag, x, tag, x), ("ok", ["(L i:%d i:%d)" % (x * k, x + 1)])))


def main(tier):
    rep = core.Reporter("C14", tier)
    ngraphs = 400 if tier == "quick" else 20000
    r = core.rng("C14")
    root = core.scratch_dir("c14")
    rep.coverage["rule"] = (
        "seeded acyclic module graphs of 2..8 files with overlapping private names and same-spelled provided names, all require "
        "modifiers, diamonds, contracted provides; a history of 3..7 requiring evaluations (+ hidden-name probes, contract "
        "boundary probes, a compile-time failure) on one engine; JIT on/off and STEEL_MODULE_INLINE on/off; distinct by graph + "
        "history; non-trivial = >= 2 modules were instantiated and >= 1 modifier other than plain was used")
    graphs = []
    for g in range(ngraphs):
        d = os.path.join(root, "g%d" % g)
        os.makedirs(d, exist_ok=True)
        mods = gen_graph(r, d, r.randint(2, 8))
        units, required = gen_history(r, d, mods)
        if g % 3 == 0:
            add_macro_trio(r, d, mods, units, required, "")
        if g % 3 == 1:
            # module files whose modification time lies in the future (a clock that was set back, a file from another
            # machine): still instantiated exactly once
            import time
            future = time.time() + 3600
            for m in mods:
                os.utime(os.path.join(d, m.name + ".scm"), (future, future))
        graphs.append((d, mods, units, required))
    configs = [("default", {}), ("nojit", {"STEEL_JIT": "false"}), ("module-inline", {"STEEL_MODULE_INLINE": "1"})]
    for cname, env in configs:
        cases = [{"id": "g%d" % i, "units": [u[1] for u in units], "timeout_ms": 60000} for i, (d, mods, units, req) in enumerate(graphs)]
        results, meta = core.run_cases(cases, env=env, tag="c14")
        for e in meta["harness_errors"]:
            rep.inconclusive_note("harness: %s" % e)
        for i, (d, mods, units, required) in enumerate(graphs):
            res = results.get("g%d" % i)
            if res is None:
                continue
            rep.count()
            if len(required) >= 2 and any(u[0] not in ("require plain", "hidden-name", "fail-compile", "contract-boundary") for u in units):
                rep.nontrivial((tuple(m.text for m in mods), tuple(u[1] for u in units)))
            replay = {"config": env, "modules": {m.name: m.text for m in mods}, "units": [u[1] for u in units], "dir": d}
            if res["status"] != "ok":
                rep.violation("C14 engine process %s while requiring modules" % res["status"], "config=%s stderr=%s" % (cname, res.get("stderr_tail", "")[-300:]), replay)
                continue
            us = res["units"]
            bad = False
            for k, (kind, src, (ek, ev)) in enumerate(units):
                if k >= len(us):
                    break
                u = us[k]
                if isinstance(src, dict):
                    src = "[compiled as a module]\n" + src["module"]
                em = u.get("emits") or []
                if u.get("panics"):
                    rep.violation("C14 %s: panic at %s" % (kind, core.panic_sig(tuple(u["panics"][0]))), "config=%s unit:\n%s" % (cname, src), replay)
                    bad = True
                    break
                if ek == "ok":
                    if not u.get("ok") or em != ev:
                        rep.violation("C14 %s: wrong result or error for names the module provides" % kind,
                                      "config=%s expected=%s observed=%s err=%s\nunit:\n%s" % (cname, ev, em, u.get("err"), src), replay)
                        bad = True
                        break
                elif ek == "hidden":
                    # the unit must be rejected (whole unit: also 'before must not be emitted is not required)
                    if u.get("ok"):
                        rep.violation("C14 hidden-name: a name the module does not provide (or hid by a modifier) is usable by the requirer",
                                      "config=%s name=%s observed=%s\nunit:\n%s" % (cname, ev, em, src), replay)
                        bad = True
                        break
                elif ek == "err":
                    if u.get("ok"):
                        rep.violation("C14 fail-compile unit succeeded", "config=%s\n%s" % (cname, src), replay)
                        bad = True
                        break
            ticks = res.get("ticks") or {}
            if not bad:
                wrong = {m.name: ticks.get(m.name, 0) for m in mods if ticks.get(m.name, 0) != (1 if m.name in required else 0)}
                if wrong:
                    rep.violation("C14 a module body ran %s" % ("more than once" if any(v > 1 for v in wrong.values()) else "a wrong number of times"),
                                  "config=%s tick counts that differ from the model (module: observed) = %s; required closure = %s" % (cname, wrong, sorted(required)), replay)
                elif len(rep.coverage["samples"]) < 4:
                    rep.sample({"config": cname, "modules": {m.name: m.text for m in mods[:3]}, "history": [u[1] for u in units[:3]], "ticks": ticks})
    shutil.rmtree(root, ignore_errors=True)
    rep.assumptions += ["the visibility model (only-in / renaming / prefix-in, transitive instantiation exactly once) is the reading of the statement",
                        "a hidden name must make the requiring unit fail; names with the same spelling made visible by an earlier plain "
                        "require on the same engine are excluded from hidden-name probes"]
    return rep.finish()


def replay(path):
    d = json.load(open(path))["replay"]
    os.makedirs(d["dir"], exist_ok=True)
    for name, text in d["modules"].items():
        with open(os.path.join(d["dir"], name + ".scm"), "w") as f:
            f.write(text)
    res, _ = core.run_cases([{"id": "r", "units": d["units"], "timeout_ms": 60000}], env=d.get("config"), shards=1)
    print(json.dumps(res["r"], indent=1)[:4000])
    shutil.rmtree(d["dir"], ignore_errors=True)
    print("(compare with the expectations in the replay file's description)")
    return 0
