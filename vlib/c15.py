"""C15 — world-stopping operations see other threads only while they are stopped (see vlib/c16.py:
the two properties share one thread-stress workload and are judged on different observations)."""
from . import c16


def main(tier):
    return c16.run("C15", tier)


def replay(path):
    return c16.replay(path, "C15")
