"""C15 / C16 — thread stress under world-stopping operations (shared workload, two verdicts).

Generated multi-thread programs (2..8 native threads + main): allocation-heavy work with cyclic
garbage, forced full collections at a seeded cadence (H-gc: through the engine's own stop-the-world
and stack-enumeration code), explicit collections from several threads at once, assignments of
globals from threads, channels with (sender id, sequence number) payloads, blocking receives made
directly and through library procedures (map over channel/recv), mutex-protected counters, threads
exiting while collections are in progress, joins in seeded order.

C16 (progress, restated as bounded progress): every program must finish within its deadline; a
joined thread's result is delivered exactly once (the program's own report is compared with the
closed form); every sent value is received exactly once and in order per sender.
C15 (consistency of world-stopping operations): no access through a live handle to a slot the
collector freed while other threads ran (H-slot), no crash, and an assignment of a global made by a
thread before it is joined is seen by the joiner afterwards; mutex-protected counters are exact."""
import json

from . import core

PRELUDE = """(define (box-cycle n) (let ((first (box 0))) (let loop ((i 1) (prev first)) (if (< i n) (loop (+ i 1) (box prev)) (begin (set-box! first prev) 'made)))))
(define (sum-to n) (let loop ((i 0) (a 0)) (if (< i n) (loop (+ i 1) (+ a i)) a)))"""


def gen_program(r, workers, n):
    kind = r.choice(["channels", "channels-via-map", "mutex-counter", "global-assignment", "collectors", "exit-during-stop", "mixed"])
    L = [PRELUDE]
    exp = []
    if kind in ("channels", "channels-via-map", "mixed"):
        L.append("(define ch (channels/new))\n(define tx (channels-sender ch))\n(define rx (channels-receiver ch))")
        L.append("""(define (worker id n)
  (let loop ((i 0) (acc 0))
    (if (< i n)
        (begin (box-cycle 3) (vector i id)
               (channel/send tx (list id i))
               (loop (+ i 1) (+ acc i)))
        (list 'done id acc))))""")
        L.append("(define threads (map (lambda (id) (spawn-native-thread (lambda () (worker id %d)))) (range 0 %d)))" % (n, workers))
        total = workers * n
        if kind == "channels-via-map":
            L.append("(define received (map (lambda (k) (channel/recv rx)) (range 0 %d)))" % total)
        else:
            L.append("(define received (let loop ((k 0) (acc '())) (if (< k %d) (loop (+ k 1) (cons (begin (box-cycle 2) (channel/recv rx)) acc)) (reverse acc))))" % total)
        order = r.choice(["(reverse threads)", "threads"])
        L.append("(verif-emit (map thread-join! %s))" % order)
        ids = list(range(workers))
        if order.startswith("(reverse"):
            ids = ids[::-1]
        exp.append("(L" + "".join(' (L y:"done" i:%d i:%d)' % (i, n * (n - 1) // 2) for i in ids) + ")")
        # exactly once, in order per sender
        L.append("""(define (from id) (map (lambda (m) (car (cdr m))) (filter (lambda (m) (= (car m) id)) received)))
(verif-emit (map (lambda (id) (equal? (from id) (range 0 %d))) (range 0 %d)))
(verif-emit (length received))""" % (n, workers))
        exp.append("(L" + " #t" * workers + ")")
        exp.append("i:%d" % total)
    elif kind == "mutex-counter":
        L.append("(define m (mutex))\n(define counter 0)")
        L.append("""(define (worker id n)
  (let loop ((i 0))
    (if (< i n)
        (let ((guard (lock-acquire! m))) (set! counter (+ counter 1)) (box-cycle 2) (lock-release! guard) (loop (+ i 1)))
        id)))""")
        L.append("(define threads (map (lambda (id) (spawn-native-thread (lambda () (worker id %d)))) (range 0 %d)))" % (n, workers))
        L.append("(verif-emit (map thread-join! threads))\n(verif-emit counter)")
        exp.append("(L" + "".join(" i:%d" % i for i in range(workers)) + ")")
        exp.append("i:%d" % (workers * n))
    elif kind == "global-assignment":
        L.append("\n".join("(define g%d 'unset)" % i for i in range(workers)))
        L.append("""(define (worker id n setter)
  (let loop ((i 0))
    (if (< i n) (begin (box-cycle 3) (when (= i (quotient n 2)) (setter (list 'set-by id))) (loop (+ i 1))) id)))""")
        L.append("(define threads (list %s))" % " ".join(
            "(spawn-native-thread (lambda () (worker %d %d (lambda (v) (set! g%d v)))))" % (i, n, i) for i in range(workers)))
        L.append("(verif-emit (map thread-join! threads))\n(verif-emit (list %s))" % " ".join("g%d" % i for i in range(workers)))
        exp.append("(L" + "".join(" i:%d" % i for i in range(workers)) + ")")
        exp.append("(L" + "".join(' (L y:"set-by" i:%d)' % i for i in range(workers)) + ")")
    elif kind == "collectors":
        L.append("""(define (worker id n)
  (let loop ((i 0) (keep (box id)))
    (if (< i n)
        (begin (box-cycle 5) (when (= 0 (modulo i 7)) (#%gc-collect)) (loop (+ i 1) (box (unbox keep))))
        (unbox keep))))""")
        L.append("(define threads (map (lambda (id) (spawn-native-thread (lambda () (worker id %d)))) (range 0 %d)))" % (min(n, 60), workers))
        L.append("(#%gc-collect)\n(verif-emit (map thread-join! threads))")
        exp.append("(L" + "".join(" i:%d" % i for i in range(workers)) + ")")
    else:  # exit-during-stop: short-lived threads finishing while the main thread keeps collecting
        L.append("""(define (short id) (box-cycle 4) (list 'bye id))
(define results (let loop ((round 0) (acc '()))
  (if (< round %d)
      (let ((ts (map (lambda (id) (spawn-native-thread (lambda () (short id)))) (range 0 %d))))
        (#%%gc-collect) (box-cycle 10)
        (loop (+ round 1) (append acc (map thread-join! ts))))
      acc)))
(verif-emit (length results))
(verif-emit (equal? results (apply append (map (lambda (round) (map (lambda (id) (list 'bye id)) (range 0 %d))) (range 0 %d)))))""" % (
            max(2, n // 20), workers, workers, max(2, n // 20)))
        exp.append("i:%d" % (workers * max(2, n // 20)))
        exp.append("#t")
    return kind, "\n".join(L), exp


def run(prop, tier):
    rep = core.Reporter(prop, tier)
    nprog = 28 if tier == "quick" else 1200
    r = core.rng("C16")     # the same workload for both properties
    progs = []
    for i in range(nprog):
        workers = r.choice([1, 2, 2, 3, 4, 4, 6, 8])
        n = r.choice([20, 50, 120])
        kind, src, exp = gen_program(r, workers, n)
        progs.append((kind, workers, n, src, exp))
    rep.coverage["rule"] = (
        "generated programs with 1..8 native threads (see module docstring) x {JIT on, JIT off} x {no forced collections, a "
        "forced full collection every 40th allocation}; distinct by (program, config); non-trivial = >= 2 threads ran and "
        "(for forced-collection configs) >= 5 forced collections happened while they ran")
    configs = [("jit-off", {"STEEL_JIT": "false"}, {}), ("jit-off+forced-gc", {"STEEL_JIT": "false"}, {"gc_every": 40}),
               ("jit-on", {}, {}), ("jit-on+forced-gc", {}, {"gc_every": 40})]
    stats = {"finished": 0, "hung": 0, "forced_collections": 0}
    for cname, env, opts in configs:
        cases = []
        for i, (kind, workers, n, src, exp) in enumerate(progs):
            c = {"id": "p%d" % i, "units": [src], "timeout_ms": 20000 if tier == "quick" else 60000, "no_vals": True, "mem_mb": 8192}
            c.update(opts)
            cases.append(c)
        results, meta = core.run_cases(cases, env=env, tag="c16", shards=8)
        for e in meta["harness_errors"]:
            rep.inconclusive_note("harness: %s" % e)
        for i, (kind, workers, n, src, exp) in enumerate(progs):
            res = results.get("p%d" % i)
            if res is None:
                continue
            rep.count()
            cnt = res.get("counters") or {}
            stats["forced_collections"] += cnt.get("FORCED_COLLECTIONS", 0)
            if workers >= 2 and (not opts or cnt.get("FORCED_COLLECTIONS", 0) >= 5):
                rep.nontrivial((src, cname))
            replay = {"config": env, "opts": opts, "src": src, "expected": exp}
            jit = "JIT on" if not env else "JIT off"
            if res["status"] == "timeout":
                stats["hung"] += 1
                if prop == "C16":
                    rep.violation("C16 a %s program with threads does not finish (%s%s)" % (kind, jit, ", forced collections" if opts else ""),
                                  "config=%s workers=%d n=%d: no result by the deadline (20 s quick / 60 s thorough)" % (cname, workers, n), replay)
                continue
            if res["status"] != "ok":
                err = res.get("stderr_tail", "")
                if "memory allocation of" in err:
                    rep.inconclusive_note("address-space cap hit (%s, %s, %d workers)" % (kind, cname, workers))
                    continue
                import re
                pm = re.search(r"VHPANIC ([^\n|]+?):\d+ \| ([^\n]*)", err)
                why = "panic at %s: %s" % (pm.group(1), re.sub(r"\d+", "N", pm.group(2))[:60]) if pm else "process %s" % res["status"]
                rep.violation("%s threads (%s): %s (%s)" % (prop, kind, why, jit), "config=%s workers=%d stderr=%s" % (cname, workers, err[-300:]), replay)
                continue
            stats["finished"] += 1
            u = res["units"][0]
            if cnt.get("FREED_SLOT_ACCESS") and prop == "C15":
                ev = [e for e in (res.get("events") or []) if e[2] == "!freed-slot-access"]
                rep.violation("C15 threads (%s): access through a live handle to a slot freed while other threads ran (%s)" % (kind, jit),
                              "config=%s workers=%d events=%s" % (cname, workers, json.dumps(ev[:2])[:600]), replay)
                continue
            got = u.get("emits") or []
            if u.get("panics"):
                rep.violation("%s threads (%s): panic at %s (%s)" % (prop, kind, core.panic_sig(tuple(u["panics"][0])), jit),
                              "config=%s workers=%d" % (cname, workers), replay)
                continue
            if not u.get("ok") or got != exp:
                # which clause does the mismatch belong to?
                mine = ("C16" if kind in ("channels", "channels-via-map", "mixed", "exit-during-stop", "collectors") else "C15")
                if not u.get("ok"):
                    mine = prop
                if mine == prop:
                    rep.violation("%s threads (%s): wrong result (%s)" % (prop, kind, jit),
                                  "config=%s workers=%d n=%d err=%s\nexpected=%s\nobserved=%s" % (cname, workers, n, u.get("err"), exp, got), replay)
                continue
            if len(rep.coverage["samples"]) < 5 and kind not in [s["kind"] for s in rep.coverage["samples"]]:
                rep.sample({"kind": kind, "threads": workers, "config": cname, "forced_collections": cnt.get("FORCED_COLLECTIONS", 0),
                            "program": src[len(PRELUDE):][:500], "emitted": got})
    rep.note("runs", stats)
    rep.assumptions += ["schedules are whatever the OS produced on 6 concurrently running children; the deadline is 60 s per program "
                        "(the programs finish in well under a second when they finish)",
                        "the scan-overlap invariant of DESIGN §2 (H-sync) was not implemented: C15 is decided on freed-slot accesses, crashes, "
                        "visibility of globals assigned by joined threads and exactness of mutex-protected counters"]
    if stats["finished"] < nprog:
        rep.inconclusive_note("only %d program runs finished" % stats["finished"], floor=stats["finished"] < nprog // 2)
    return rep.finish()


def main(tier):
    return run("C16", tier)


def replay(path):
    d = json.load(open(path))["replay"]
    c = {"id": "r", "units": [d["src"]], "timeout_ms": 60000, "no_vals": True, "events": True}
    c.update(d.get("opts") or {})
    res, _ = core.run_cases([c], env=d.get("config"), shards=1)
    r = res["r"]
    print(json.dumps(r, indent=1)[:3000])
    ok = r["status"] == "ok" and r["units"] and r["units"][0].get("emits") == d["expected"]
    if not ok:
        print("VIOLATION property=C16 replay=%s" % path)
        return 1
    return 0
