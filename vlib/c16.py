"""C15 / C16 — thread stress under world-stopping operations (shared workload, two verdicts).

Generated multi-thread programs (1..8 native threads + main): allocation-heavy work with cyclic
garbage, forced full collections at a seeded cadence (H-gc: through the engine's own stop-the-world
and stack-enumeration code), explicit collections from several threads at once, assignments of
globals from threads (also racing with collections and with each other), channels with
(sender id, sequence number) payloads, blocking receives made directly, through `apply` and through
library procedures (map over channel/recv), mutex-protected global counters, long box chains kept only
on a thread's stack, threads spawning threads while others collect, threads exiting while collections
are in progress, joins in seeded order.  Every program is run at the top level and compiled as a
module (native code paths), JIT on and off, with and without seeded delays injected at the
suspension points of the stop-the-world handshake (H-sync `sync_delay`).

C16 (progress, restated as bounded progress): a run is *stalled* when none of the H-prog counters
(instructions dispatched, safepoint entries, stop-the-world begun / finished, collections) moved for
10 s - the watchdog lives in the child and decides on the counters; reaching the generous wall-clock
cap while the counters still move is inconclusive.  A joined thread's result is delivered exactly
once; every sent value is received exactly once and in order per sender (computed by the program over
the received history and compared with the closed form).
C15 (consistency of world-stopping operations): H-sync - no thread executes an instruction or leaves
a safepoint while a stopper inspects / replaces its state (`!ran-while-inspected`); H-slot - no access
through a live handle to a slot the collector freed; no crash; box chains that live only on a
running thread's stack survive other threads' collections; an assignment of a global is seen by a
thread that learns of it afterwards (through a channel or a join); mutex-protected global counters
are exact."""
import json
import os
import re

from . import core

PRELUDE = """(define (box-cycle n) (let ((first (box 0))) (let loop ((i 1) (prev first)) (if (< i n) (loop (+ i 1) (box prev)) (begin (set-box! first prev) 'made)))))
(define (sum-to n) (let loop ((i 0) (a 0)) (if (< i n) (loop (+ i 1) (+ a i)) a)))
(define (chain-base b depth) (let loop ((b b) (d 0)) (if (< d depth) (loop (unbox b) (+ d 1)) (list d b))))"""

KINDS = ["channels", "channels-via-map", "channels-via-apply", "mutex-counter", "global-assignment", "collectors",
         "exit-during-stop", "box-chains", "spawn-tree", "assign-then-tell", "assigners-vs-collectors", "spawn-during-assignment", "handled-errors", "large-live-sets"]
# which property a wrong *result* of a finished program speaks about
OWNER = {"channels": "C16", "channels-via-map": "C16", "channels-via-apply": "C16", "exit-during-stop": "C16",
         "collectors": "C15", "mutex-counter": "C15", "global-assignment": "C15", "box-chains": "C15",
         "spawn-tree": "C15", "assign-then-tell": "C15", "assigners-vs-collectors": "C15", "spawn-during-assignment": "C15", "handled-errors": "C15", "large-live-sets": "C15"}


def gen_program(r, workers, n, kind=None):
    kind = kind or r.choice(KINDS)
    L = [PRELUDE]
    exp = []
    # (#%gc-collect) is the script-visible collection, but every call also grows the heap's slot vector, so it is
    # used sparingly; (#%verif-full-gc) runs the same stop-the-world / mark / sweep without growing
    gc = r.choice(["(#%verif-full-gc)", "(#%verif-full-gc)", "(#%gc-collect)"])
    every = 7 if gc == "(#%verif-full-gc)" else 19
    if kind in ("channels", "channels-via-map", "channels-via-apply"):
        L.append("(define ch (channels/new))\n(define tx (channels-sender ch))\n(define rx (channels-receiver ch))")
        L.append("""(define (worker id n)
  (let loop ((i 0) (acc 0))
    (if (< i n)
        (begin (box-cycle 3) (vector i id)
               (channel/send tx (list id i))
               (loop (+ i 1) (+ acc i)))
        (list 'done id acc))))""")
        L.append("(define threads (map (lambda (id) (spawn-native-thread (lambda () (worker id %d)))) (range 0 %d)))" % (n, workers))
        total = workers * n
        if kind == "channels-via-map":
            L.append("(define received (map (lambda (k) (channel/recv rx)) (range 0 %d)))" % total)
        elif kind == "channels-via-apply":
            L.append("(define received (let loop ((k 0) (acc '())) (if (< k %d) (loop (+ k 1) (cons (apply channel/recv (list rx)) acc)) (reverse acc))))" % total)
        else:
            L.append("(define received (let loop ((k 0) (acc '())) (if (< k %d) (loop (+ k 1) (cons (begin (box-cycle 2) (channel/recv rx)) acc)) (reverse acc))))" % total)
        order = r.choice(["(reverse threads)", "threads"])
        L.append("(verif-emit (map thread-join! %s))" % order)
        ids = list(range(workers))
        if order.startswith("(reverse"):
            ids = ids[::-1]
        exp.append("(L" + "".join(' (L y:"done" i:%d i:%d)' % (i, n * (n - 1) // 2) for i in ids) + ")")
        # exactly once, in order per sender
        L.append("""(define (from id) (map (lambda (m) (car (cdr m))) (filter (lambda (m) (= (car m) id)) received)))
(verif-emit (map (lambda (id) (equal? (from id) (range 0 %d))) (range 0 %d)))
(verif-emit (length received))""" % (n, workers))
        exp.append("(L" + " #t" * workers + ")")
        exp.append("i:%d" % total)
    elif kind == "mutex-counter":
        L.append("(define m (mutex))\n(define counter 0)")
        L.append("""(define (worker id n)
  (let loop ((i 0))
    (if (< i n)
        (let ((guard (lock-acquire! m))) (set! counter (+ counter 1)) (box-cycle 2) (lock-release! guard) (loop (+ i 1)))
        id)))""")
        L.append("(define threads (map (lambda (id) (spawn-native-thread (lambda () (worker id %d)))) (range 0 %d)))" % (n, workers))
        L.append("(verif-emit (map thread-join! threads))\n(verif-emit counter)")
        exp.append("(L" + "".join(" i:%d" % i for i in range(workers)) + ")")
        exp.append("i:%d" % (workers * n))
    elif kind == "global-assignment":
        L.append("\n".join("(define g%d 'unset)" % i for i in range(workers)))
        L.append("""(define (worker id n setter)
  (let loop ((i 0))
    (if (< i n) (begin (box-cycle 3) (when (= i (quotient n 2)) (setter (list 'set-by id))) (loop (+ i 1))) id)))""")
        L.append("(define threads (list %s))" % " ".join(
            "(spawn-native-thread (lambda () (worker %d %d (lambda (v) (set! g%d v)))))" % (i, n, i) for i in range(workers)))
        L.append("(verif-emit (map thread-join! threads))\n(verif-emit (list %s))" % " ".join("g%d" % i for i in range(workers)))
        exp.append("(L" + "".join(" i:%d" % i for i in range(workers)) + ")")
        exp.append("(L" + "".join(' (L y:"set-by" i:%d)' % i for i in range(workers)) + ")")
    elif kind == "collectors":
        # every thread keeps a value in a box that only its own loop variable refers to
        L.append("""(define (worker id n)
  (let loop ((i 0) (keep (box (list id 0))))
    (if (< i n)
        (begin (box-cycle 5) (when (= 0 (modulo i %d)) %s) (loop (+ i 1) (box (list id (+ 1 (car (cdr (unbox keep))))))))
        (unbox keep))))""" % (every, gc))
        m = min(n, 40)
        L.append("(define threads (map (lambda (id) (spawn-native-thread (lambda () (worker id %d)))) (range 0 %d)))" % (m, workers))
        L.append("%s\n(verif-emit (map thread-join! threads))" % gc)
        exp.append("(L" + "".join(" (L i:%d i:%d)" % (i, m) for i in range(workers)) + ")")
    elif kind == "box-chains":
        # a chain of boxes referenced only by a loop variable of a running thread, extended two boxes at a time
        L.append("""(define (worker id n)
  (let loop ((i 0) (prev id))
    (if (< i n) (loop (+ i 1) (box (box prev))) (chain-base prev (* 2 n)))))""")
        L.append("(define threads (map (lambda (id) (spawn-native-thread (lambda () (worker id %d)))) (range 0 %d)))" % (n * 4, workers))
        L.append("(box-cycle 20) %s\n(verif-emit (map thread-join! threads))" % gc)
        exp.append("(L" + "".join(" (L i:%d i:%d)" % (n * 8, i) for i in range(workers)) + ")")
    elif kind == "spawn-tree":
        # threads that spawn threads while the others allocate and collect; every thread's first boxes must survive
        L.append("""(define (leaf id) (let ((a (box id)) (b (box (box id)))) (box-cycle 6) (list (unbox a) (unbox (unbox b)))))
(define (node id fanout)
  (let ((mine (box (list 'node id))))
    (let ((kids (map (lambda (k) (spawn-native-thread (lambda () (leaf (+ (* id 10) k))))) (range 0 fanout))))
      (box-cycle 8)
      (list (unbox mine) (map thread-join! kids)))))""")
        fan = 2 if workers > 4 else 3
        rounds = max(1, n // 40)
        L.append("""(define results (let loop ((round 0) (acc '()))
  (if (< round %d)
      (let ((ts (map (lambda (id) (spawn-native-thread (lambda () (node id %d)))) (range 0 %d))))
        %s
        (loop (+ round 1) (cons (map thread-join! ts) acc)))
      acc)))
(verif-emit (length results))
(verif-emit (equal? results (map (lambda (round) (map (lambda (id) (list (list 'node id) (map (lambda (k) (list (+ (* id 10) k) (+ (* id 10) k))) (range 0 %d)))) (range 0 %d))) (range 0 %d))))""" % (
            rounds, fan, workers, gc, fan, workers, rounds))
        exp.append("i:%d" % rounds)
        exp.append("#t")
    elif kind == "assign-then-tell":
        # a writer assigns a global and then tells a reader (through a channel); the reader must see at least that value
        L.append("(define g 0)\n(define ch (channels/new))\n(define tx (channels-sender ch))\n(define rx (channels-receiver ch))")
        L.append("""(define (writer n) (let loop ((i 1)) (if (<= i n) (begin (set! g i) (channel/send tx i) (box-cycle 2) (loop (+ i 1))) 'w)))
(define (reader n)
  (let loop ((k 0) (bad 0))
    (if (< k n)
        (let ((told (channel/recv rx)))
          (loop (+ k 1) (if (>= g told) bad (+ bad 1))))
        bad)))
(define (busy id n) (let loop ((i 0)) (if (< i n) (begin (box-cycle 3) (loop (+ i 1))) id)))""")
        L.append("(define rd (spawn-native-thread (lambda () (reader %d))))" % n)
        L.append("(define others (map (lambda (id) (spawn-native-thread (lambda () (busy id %d)))) (range 0 %d)))" % (n, max(0, workers - 2)))
        L.append("(define wr (spawn-native-thread (lambda () (writer %d))))" % n)
        L.append("(verif-emit (thread-join! wr))\n(verif-emit (thread-join! rd))\n(verif-emit (map thread-join! others))\n(verif-emit g)")
        exp += ['y:"w"', "i:0", "(L" + "".join(" i:%d" % i for i in range(max(0, workers - 2))) + ")", "i:%d" % n]
    elif kind == "assigners-vs-collectors":
        # half of the threads assign their own global in a loop, the other half collect; final values are the last assigned
        na = max(1, workers // 2)
        L.append("\n".join("(define a%d -1)" % i for i in range(na)))
        for i in range(na):
            L.append("(define (assigner%d n) (let loop ((i 0)) (if (< i n) (begin (set! a%d i) (box-cycle 2) (loop (+ i 1))) a%d)))" % (i, i, i))
        L.append("(define (collector id n) (let loop ((i 0) (keep (box id))) (if (< i n) (begin (box-cycle 4) (when (= 0 (modulo i 5)) (#%verif-full-gc)) (loop (+ i 1) (box (unbox keep)))) (unbox keep))))")
        m = min(n, 50)
        L.append("(define ts (list %s))" % " ".join(
            ["(spawn-native-thread (lambda () (assigner%d %d)))" % (i, m) for i in range(na)] +
            ["(spawn-native-thread (lambda () (collector %d %d)))" % (i, m) for i in range(workers - na)]))
        L.append("(verif-emit (map thread-join! ts))\n(verif-emit (list %s))" % " ".join("a%d" % i for i in range(na)))
        exp.append("(L" + "".join(" i:%d" % (m - 1) for i in range(na)) + "".join(" i:%d" % i for i in range(workers - na)) + ")")
        exp.append("(L" + "".join(" i:%d" % (m - 1) for i in range(na)) + ")")
    elif kind == "large-live-sets":
        # every thread keeps tens of thousands of boxes alive in a list only its loop variable refers to, so that the slot
        # vector fills up with live slots and collections started by one thread have to mark the other threads' lists
        m = 40000 + n * 100    # (the defect this kind was written for needed ~10^5 live boxes in total)
        L.append("""(define (worker id n)
  (let loop ((i 0) (acc (list)))
    (if (< i n) (loop (+ i 1) (cons (box (+ i id)) acc))
        (list id (length acc) (unbox (car acc)) (unbox (list-ref acc (- n 1)))))))""")
        L.append("(define threads (map (lambda (id) (spawn-native-thread (lambda () (worker id %d)))) (range 0 %d)))" % (m, workers))
        L.append("(verif-emit (map thread-join! threads))")
        exp.append("(L" + "".join(" (L i:%d i:%d i:%d i:%d)" % (i, m, m - 1 + i, i) for i in range(workers)) + ")")
    elif kind == "handled-errors":
        # threads whose every third iteration raises an error inside a primitive called from a compiled function, caught by
        # a handler in the same loop, and which then carry on reading a global that another thread keeps assigning while a
        # third collects: a thread that leaves a primitive through its error path must be back among the running threads
        L.append("""(define shared 0)
(define table (hash 'present 1))
(define (risky i v)
  (if (= 0 (modulo i 3))
      (let ((k (modulo (quotient i 3) 5)))
        (cond ((= k 0) (vector-ref v (+ 10 i)))
              ((= k 1) (string->symbol i))
              ((= k 2) (hash-ref table 'missing))
              ((= k 3) (string-append "a" i))
              (else (list-tail (list 1 2) 7))))
      (vector-ref v 0)))
(define (worker id n)
  (let ((v (vector id 1 2)))
    (let loop ((i 0) (caught 0) (seen 0))
      (if (< i n)
          (loop (+ i 1)
                (+ caught (with-handler (lambda (e) 1) (begin (risky i v) 0)))
                (if (>= shared seen) shared -1000000))
          (list id caught (>= seen 0))))))
(define (assigner n) (let loop ((i 1)) (if (<= i n) (begin (set! shared i) (box-cycle 2) (loop (+ i 1))) 'a)))
(define (collector n) (let loop ((i 0)) (if (< i n) (begin (box-cycle 4) (when (= 0 (modulo i 5)) (#%verif-full-gc)) (loop (+ i 1))) 'c)))""")
        L.append("(define threads (map (lambda (id) (spawn-native-thread (lambda () (worker id %d)))) (range 0 %d)))" % (n * 3, workers))
        L.append("(define ta (spawn-native-thread (lambda () (assigner %d))))\n(define tc (spawn-native-thread (lambda () (collector %d))))" % (n, min(n, 50)))
        L.append("(verif-emit (map thread-join! threads))\n(verif-emit (list (thread-join! ta) (thread-join! tc)))\n(verif-emit shared)")
        exp.append("(L" + "".join(" (L i:%d i:%d #t)" % (i, n) for i in range(workers)) + ")")
        exp.append('(L y:"a" y:"c")')
        exp.append("i:%d" % n)
    elif kind == "spawn-during-assignment":
        # a setter thread performs one (set! g r) per request and acknowledges it; the main thread spawns a child *while* the
        # assignment may be in progress, waits for the acknowledgement and only then lets the child read g: the assignment
        # completed before the child was told to read, so the child must see it (a thread being created during a
        # world-stopping update must not start from a stale global table)
        rounds = n * 2
        L.append("""(define g 0)
(define go (channels/new))
(define ack (channels/new))
(define (spin k) (if (= k 0) 0 (spin (- k 1))))
(define setter (spawn-native-thread (lambda () (let loop () (let ((r (channel/recv (channels-receiver go)))) (when (>= r 0) (set! g r) (channel/send (channels-sender ack) r) (loop)))))))
(define (busy id n) (let loop ((i 0)) (if (< i n) (begin (box-cycle 3) (loop (+ i 1))) id)))
(define others (map (lambda (id) (spawn-native-thread (lambda () (busy id %d)))) (range 0 %d)))
(define (one-round r)
  (let ((check (channels/new)))
    (channel/send (channels-sender go) r)
    (spin (modulo (* r 7) 60))
    (let ((child (spawn-native-thread (lambda () (channel/recv (channels-receiver check)) g))))
      (channel/recv (channels-receiver ack))
      (channel/send (channels-sender check) #t)
      (if (equal? (thread-join! child) r) 0 1))))
(define stale (let loop ((r 1) (bad 0)) (if (<= r %d) (loop (+ r 1) (+ bad (one-round r))) bad)))
(channel/send (channels-sender go) -1)
(thread-join! setter)
(verif-emit (map thread-join! others))
(verif-emit stale)
(verif-emit g)""" % (rounds, max(0, workers - 2), rounds))
        exp += ["(L" + "".join(" i:%d" % i for i in range(max(0, workers - 2))) + ")", "i:0", "i:%d" % rounds]
    else:  # exit-during-stop: short-lived threads finishing while the main thread keeps collecting
        rounds = max(2, n // 20)
        L.append("""(define (short id) (box-cycle 4) (list 'bye id))
(define results (let loop ((round 0) (acc '()))
  (if (< round %d)
      (let ((ts (map (lambda (id) (spawn-native-thread (lambda () (short id)))) (range 0 %d))))
        %s (box-cycle 10)
        (loop (+ round 1) (append acc (map thread-join! ts))))
      acc)))
(verif-emit (length results))
(verif-emit (equal? results (apply append (map (lambda (round) (map (lambda (id) (list 'bye id)) (range 0 %d))) (range 0 %d)))))""" % (
            rounds, workers, gc, workers, rounds))
        exp.append("i:%d" % (workers * rounds))
        exp.append("#t")
    return kind, "\n".join(L), exp


CONFIGS = [
    # name, env, case options
    ("jit-off", {"STEEL_JIT": "false"}, {}),
    ("jit-off+forced-gc+delays", {"STEEL_JIT": "false"}, {"gc_every": 40, "sync_delay_us": 200}),
    ("jit-on", {}, {}),
    ("jit-on+forced-gc+delays", {}, {"gc_every": 40, "sync_delay_us": 200}),
    ("module+forced-gc", {}, {"gc_every": 60, "as_module": True}),
    ("module+delays", {}, {"sync_delay_us": 400, "as_module": True}),
]
THOROUGH_CONFIGS = CONFIGS + [
    ("jit-off+delays", {"STEEL_JIT": "false"}, {"sync_delay_us": 1000}),
    ("jit-on+gc-jitter", {}, {"gc_every": 25, "gc_jitter": 20}),
    ("module-jit-off+forced-gc+delays", {"STEEL_JIT": "false"}, {"gc_every": 40, "sync_delay_us": 200, "as_module": True}),
    ("module+forced-gc+delays", {}, {"gc_every": 30, "sync_delay_us": 300, "as_module": True}),
]
STALL_MS = 10000
CAP_MS = 150000
SYNC_COUNTERS = ("STOP_THE_WORLD", "STOP_THE_WORLD_FINISHED", "SCANS_OF_OTHER_THREADS", "SAFEPOINT_ENTRIES", "FORCED_COLLECTIONS",
                 "FULL_COLLECTIONS", "INSTRUCTIONS", "UNREACHABLE_FLAG_SEEN_DURING_COLLECTION")


def programs(tier):
    nprog = 70 if tier == "quick" else 770
    r = core.rng("C16")     # the same workload for both properties
    progs = []
    for i in range(nprog):
        workers = r.choice([1, 2, 2, 3, 4, 4, 6, 8])
        n = r.choice([20, 50, 120])
        kind, src, exp = gen_program(r, workers, n, KINDS[i % len(KINDS)])   # every kind, every run
        progs.append((kind, workers, n, src, exp))
    return progs


def run(prop, tier):
    rep = core.Reporter(prop, tier)
    progs = programs(tier)
    rep.coverage["rule"] = (
        "generated programs with 1..8 native threads (14 kinds, see module docstring) x configurations {JIT on/off, top level / "
        "compiled as a module, forced full collections every k-th allocation, seeded delays at the handshake's suspension "
        "points}; distinct by (program, config); non-trivial = >= 2 threads ran and a stopper inspected another thread's "
        "state at least once in that run (H-sync counter SCANS_OF_OTHER_THREADS)")
    configs = CONFIGS if tier == "quick" else THOROUGH_CONFIGS
    stats = {"finished": 0, "stalled": 0, "cap_reached_while_progressing": 0}
    observed = {k: 0 for k in SYNC_COUNTERS}
    per_kind = {}
    for ci, (cname, env, opts) in enumerate(configs):
        cases = []
        for i, (kind, workers, n, src, exp) in enumerate(progs):
            c = {"id": "p%d" % i, "units": [src], "timeout_ms": CAP_MS, "stall_ms": STALL_MS, "no_vals": True, "mem_mb": 8192,
                 "sync_seed": core.seed() * 1000 + ci * 100 + i}
            c.update(opts)
            if kind == "large-live-sets":
                c.pop("gc_every", None)     # a forced full collection every k-th allocation over 10^5 live boxes takes minutes
            cases.append(c)
        results, meta = core.run_cases(cases, env=env, tag="c16", shards=8)
        for e in meta["harness_errors"]:
            rep.inconclusive_note("harness: %s" % e)
        for i, (kind, workers, n, src, exp) in enumerate(progs):
            res = results.get("p%d" % i)
            if res is None:
                continue
            rep.count()
            cnt = res.get("counters") or {}
            for k in SYNC_COUNTERS:
                observed[k] += cnt.get(k, 0)
            pk = per_kind.setdefault(kind, {"runs": 0, "scans_of_other_threads": 0, "stop_the_world": 0})
            pk["runs"] += 1
            pk["scans_of_other_threads"] += cnt.get("SCANS_OF_OTHER_THREADS", 0)
            pk["stop_the_world"] += cnt.get("STOP_THE_WORLD", 0)
            if workers >= 2 and cnt.get("SCANS_OF_OTHER_THREADS", 0) >= 1:
                rep.nontrivial((src, cname))
            replay = {"config": env, "opts": opts, "src": src, "expected": exp, "sync_seed": cases[i]["sync_seed"]}
            ctx = "%s%s%s%s" % ("JIT on" if "STEEL_JIT" not in env else "JIT off", ", module" if opts.get("as_module") else "",
                                ", forced collections" if opts.get("gc_every") else "", ", delays" if opts.get("sync_delay_us") else "")
            err = res.get("stderr_tail", "")
            if res["status"] == "exit:97" and "VHSTALL" in err:
                stats["stalled"] += 1
                if prop == "C16":
                    m = re.search(r"VHSTALL (\{.*\})", err)
                    info = json.loads(m.group(1)) if m else {}
                    where = "inside a stop-the-world rendezvous" if info.get("stoppers_active") else "with no stop request pending"
                    rep.violation("C16 a %s program with threads stalls %s (%s)" % (kind, where, ctx),
                                  "config=%s workers=%d n=%d: no progress counter moved for %d s; %s" % (cname, workers, n, STALL_MS // 1000, json.dumps(info)), replay)
                continue
            if res["status"] == "timeout":
                stats["cap_reached_while_progressing"] += 1
                rep.inconclusive_note("%s/%s: wall-clock cap of %d s reached while the progress counters were still moving" % (kind, cname, CAP_MS // 1000))
                continue
            if res["status"] != "ok":
                if "memory allocation of" in err:
                    rep.inconclusive_note("address-space cap hit (%s, %s, %d workers)" % (kind, cname, workers))
                    continue
                pm = re.search(r"VHPANIC ([^\n|]+?):\d+ \| ([^\n]*)", err)
                why = "panic at %s: %s" % (pm.group(1), re.sub(r"\d+", "N", pm.group(2))[:60]) if pm else "process %s" % res["status"]
                rep.violation("%s threads (%s): %s (%s)" % (prop, kind, why, ctx), "config=%s workers=%d stderr=%s" % (cname, workers, err[-300:]), replay)
                continue
            stats["finished"] += 1
            u = res["units"][0]
            if prop == "C15":
                evs = res.get("events") or []
                if cnt.get("RAN_WHILE_PUBLISHED"):
                    ev = [e for e in evs if e[2] == "!running-while-published"]
                    site = ev[0][5] if ev else "?"
                    rep.violation("C15 a thread is %s while its context is still published as parked (%s)" % (site, ctx),
                                  "kind=%s config=%s workers=%d events=%s" % (kind, cname, workers, json.dumps(ev[:3])[:500]), replay)
                    continue
                if cnt.get("RAN_WHILE_SCANNED"):
                    ev = [e for e in evs if e[2] == "!ran-while-inspected"]
                    site = ev[0][5] if ev else "?"
                    rep.violation("C15 a thread runs %s while another thread inspects or replaces its state (%s)" % (site, ctx),
                                  "kind=%s config=%s workers=%d events=%s" % (kind, cname, workers, json.dumps(ev[:3])[:500]), replay)
                    continue
                if cnt.get("FREED_SLOT_ACCESS"):
                    ev = [e for e in evs if e[2] == "!freed-slot-access"]
                    rep.violation("C15 threads (%s): access through a live handle to a slot freed while other threads ran (%s)" % (kind, ctx),
                                  "config=%s workers=%d events=%s" % (cname, workers, json.dumps(ev[:2])[:600]), replay)
                    continue
            got = u.get("emits") or []
            if u.get("panics"):
                rep.violation("%s threads (%s): panic at %s (%s)" % (prop, kind, core.panic_sig(tuple(u["panics"][0])), ctx),
                              "config=%s workers=%d" % (cname, workers), replay)
                continue
            if not u.get("ok") or got != exp:
                if OWNER[kind] == prop or not u.get("ok"):
                    what = "raises %s" % u.get("kind") if not u.get("ok") else "wrong result"
                    rep.violation("%s threads (%s): %s (%s)" % (prop, kind, what, ctx),
                                  "config=%s workers=%d n=%d err=%s\nexpected=%s\nobserved=%s" % (cname, workers, n, u.get("err"), exp, got), replay)
                continue
            if len(rep.coverage["samples"]) < 6 and kind not in [s["kind"] for s in rep.coverage["samples"]]:
                rep.sample({"kind": kind, "threads": workers, "config": cname,
                            "monitors": {k: cnt.get(k, 0) for k in SYNC_COUNTERS[:6]},
                            "program": src[len(PRELUDE):][:500], "emitted": got})
    rep.note("runs", stats)
    rep.note("monitors_observed", observed)
    rep.note("per_kind", per_kind)
    rep.assumptions += ["schedules are whatever the OS produced on 8 concurrently running children, perturbed by the seeded delays at the "
                        "handshake's suspension points (between a thread's last look at its pause flag and the retraction of its context; "
                        "between a stop request and the inspection) and by forced collections",
                        "stall = no H-prog counter moved for %d s (decided inside the child); the wall-clock cap of %d s is only a watchdog"
                        % (STALL_MS // 1000, CAP_MS // 1000),
                        "a natively compiled loop that makes no helper call dispatches no instruction; the generated programs allocate and call primitives in every loop"]
    if prop == "C15" and (tier == "thorough" or os.environ.get("VERIF_TSAN")):
        tsan_pass(rep, progs)
    total = len(progs) * len(configs)
    if observed["SCANS_OF_OTHER_THREADS"] < 200 or observed["STOP_THE_WORLD"] < 1000:
        rep.inconclusive_note("too few world-stopping operations observed: %s" % observed, floor=True)
    if stats["finished"] < total:
        rep.inconclusive_note("only %d of %d program runs finished" % (stats["finished"], total), floor=stats["finished"] < total // 2)
    return rep.finish()


# ------------------------------------------------------------------------------------------------
# ThreadSanitizer pass (C15, thorough tier): the same programs on a -Zsanitizer=thread build of the harness (std rebuilt
# with the sanitizer), JIT off (natively compiled code is not instrumented).  A report counts for C15 when one of the two
# racing stacks runs through the runtime's world-stopping code; races whose two accesses are both inside steel-rc are C05's
# business (finding C05-F03) and anything else is listed in the evidence but not judged here.
STW_FRAMES = re.compile(r"enumerate_stacks|call_per_ctx|stop_threads|resume_threads|Heap>::mark|mark_and_sweep|verif_full_collection|"
                        r"Heap>::collect|weak_collection|Heap>::sweep|handle_set|handle_bind|insert_binding|repl_set_idx|repl_define_idx|"
                        r"MarkAndSweepContext|GlobalSlotRecycler")


def _frames(block):
    """in-repository frames (function name without generic arguments, file) of one stack of a TSan report"""
    out = []
    for line in block:
        m = re.match(r"\s+#\d+ (.*) (/repo/crates/[^: ]+):\d+", line)
        if m:
            fn = re.sub(r"::<.*", "", m.group(1))
            fn = re.sub(r"<([^<>]|<[^<>]*>)*>", "<_>", fn)
            out.append((fn.strip(), m.group(2).replace("/repo/crates/", "")))
    return out


def parse_tsan_logs(paths):
    """-> list of (kind, stackA frames, stackB frames, raw head)"""
    reports = []
    for path in paths:
        try:
            text = open(path, errors="replace").read()
        except OSError:
            continue
        for rep_ in text.split("==================\n"):
            if "WARNING: ThreadSanitizer:" not in rep_:
                continue
            kind = re.search(r"WARNING: ThreadSanitizer: ([^(\n]+)", rep_).group(1).strip()
            stacks = []
            cur = None
            for line in rep_.splitlines():
                if re.match(r"\s+(Read|Write|Previous|Atomic|Mutex|Thread T|Location|Cycle|Signal)", line) or line.strip() == "":
                    if cur:
                        stacks.append(cur)
                    cur = [] if re.match(r"\s+(Read|Write|Previous (read|write|atomic)|Atomic)", line, re.I) else None
                elif cur is not None:
                    cur.append(line)
            if cur:
                stacks.append(cur)
            fr = [_frames(b) for b in stacks[:2]]
            while len(fr) < 2:
                fr.append([])
            reports.append((kind, fr[0], fr[1], rep_[:60000]))
    return reports


def tsan_pass(rep, progs):
    import glob
    import os
    try:
        core.build("tsan")
    except core.BuildError as e:
        rep.inconclusive_note("ThreadSanitizer build of the harness failed: %s" % e)
        return
    d = core.scratch_dir("tsanlogs")
    supp = os.path.join(core.VERIF, "tools", "tsan.supp")
    env = {"STEEL_JIT": "false",
           "TSAN_OPTIONS": "halt_on_error=0:exitcode=0:report_signal_unsafe=0:log_path=%s/tsan:suppressions=%s:history_size=4" % (d, supp)}
    r = core.rng("C15-tsan")
    cases = []
    sel = []
    for kind in KINDS:
        for j in range(2):
            workers = r.choice([2, 3, 4])
            k, src, exp = gen_program(r, workers, 20, kind)
            sel.append((kind, workers, src, exp))
            cases.append({"id": "t%d" % len(cases), "units": [src], "timeout_ms": 900000, "no_vals": True, "mem_mb": 0,
                          "gc_every": 150 if j else 0})
    results, meta = core.run_cases(cases, env=env, variant="tsan", tag="c15tsan", shards=NC_TSAN)
    finished = sum(1 for c in cases if results.get(c["id"], {}).get("status") == "ok")
    reports = parse_tsan_logs(glob.glob(os.path.join(d, "tsan.*")))
    seen = {}
    stats = {"programs": len(cases), "finished": finished, "reports": len(reports), "inside_steel_rc_left_to_C05": 0,
             "through_world_stopping_code": 0, "other_not_judged": 0}
    others = {}
    for kind, a, b, raw in reports:
        ta = a[0] if a else ("?", "?")
        tb = b[0] if b else ("?", "?")
        if kind.startswith("data race") and ta[1].startswith("steel-rc/") and tb[1].startswith("steel-rc/"):
            stats["inside_steel_rc_left_to_C05"] += 1
            continue
        through = [f for f in a + b if STW_FRAMES.search(f[0])]
        if kind.startswith("data race") and through:
            stats["through_world_stopping_code"] += 1
            pair = sorted(["%s (%s)" % ta, "%s (%s)" % tb])
            sig = "C15 ThreadSanitizer: data race between %s and %s" % (pair[0], pair[1])
            if sig not in seen:
                seen[sig] = 1
                # Not a verdict.  The handshake that orders a stopper's accesses against the stopped thread's goes through
                # crossbeam's 16-byte AtomicCell (sequence lock: volatile reads validated by fences), which ThreadSanitizer
                # does not model, so a report here may be a modelling gap as well as a race: on the unchanged tree the
                # pair Env::repl_define_idx / Env::repl_lookup_idx is reported in most runs and could not be settled
                # either way.  The reports are listed in the evidence and make the pass inconclusive.
                rep.inconclusive_note("%s (one of the racing stacks runs through %s)" % (sig, through[0][0]))
                stats.setdefault("pairs_through_world_stopping_code", []).append(sig)
        else:
            stats["other_not_judged"] += 1
            key = "%s: %s / %s" % (kind, ta[0], tb[0])
            others[key] = others.get(key, 0) + 1
    stats["other_reports"] = dict(sorted(others.items(), key=lambda kv: -kv[1])[:10])
    rep.note("thread_sanitizer_pass", stats)
    if finished < len(cases) // 2:
        rep.inconclusive_note("ThreadSanitizer pass: only %d of %d programs finished" % (finished, len(cases)))
    import shutil
    shutil.rmtree(d, ignore_errors=True)


NC_TSAN = 11


def main(tier):
    return run("C16", tier)


def replay(path, prop="C16"):
    d = json.load(open(path))
    prop = d.get("property", prop)
    d = d["replay"]
    ok = True
    for k in range(6):
        c = {"id": "r", "units": [d["src"]], "timeout_ms": CAP_MS, "stall_ms": STALL_MS, "no_vals": True, "events": True,
             "sync_seed": d.get("sync_seed", 1) + k}
        c.update(d.get("opts") or {})
        res, _ = core.run_cases([c], env=d.get("config"), shards=1)
        r = res["r"]
        cnt = r.get("counters") or {}
        good = (r["status"] == "ok" and r["units"] and r["units"][0].get("emits") == d["expected"]
                and not cnt.get("RAN_WHILE_SCANNED") and not cnt.get("RAN_WHILE_PUBLISHED") and not cnt.get("FREED_SLOT_ACCESS"))
        print("attempt %d: status=%s emits=%s monitors=%s %s" % (k, r["status"], (r["units"] or [{}])[0].get("emits"),
              {x: cnt.get(x) for x in ("RAN_WHILE_SCANNED", "RAN_WHILE_PUBLISHED", "FREED_SLOT_ACCESS", "STOP_THE_WORLD", "SCANS_OF_OTHER_THREADS")}, r.get("stderr_tail", "")[-300:]))
        if not good:
            ok = False
            break
    if not ok:
        print("VIOLATION property=%s replay=%s" % (prop, path))
        return 1
    return 0
