"""C17 — a running script can always be interrupted.

Monitor: the harness child requests interruption (ThreadStateController::interrupt) from a second
host thread after a seeded delay while Engine::run executes a non-terminating program; the parent
watches the child.  Violation: Engine::run has not returned 20 s after the request (the loop never
polls), it returns Ok, it panics, or the probe evaluation after resume() gives a wrong answer.
Returns between 2 s and 20 s after the request are reported as slow cases, not violations."""
import json

from . import core

SHAPES = {
    "self-tail-loop": "(define (loop i) (loop (+ i 1)))\n(loop 0)",
    "self-tail-loop-with-temps": "(define (loop i acc) (let ((t (+ i 1)) (u (* acc 1))) (loop t u)))\n(loop 0 1)",
    "mutual-tail-loop": "(define (a i) (b (+ i 1)))\n(define (b i) (c (+ i 1)))\n(define (c i) (a (+ i 1)))\n(a 0)",
    "named-let": "(let loop ((i 0)) (loop (+ i 1)))",
    "do-loop": "(do ((i 0 (+ i 1))) (#f 'never) (* i i))",
    "non-tail-recursion": "(define (deep n) (+ 1 (deep (+ n 1))))\n(deep 0)",
    "loop-in-map-callback": "(map (lambda (x) (let loop ((i 0)) (loop (+ i 1)))) (list 1 2 3))",
    "loop-in-foldl-callback": "(foldl (lambda (x acc) (let loop ((i 0)) (loop (+ i 1)))) 0 (list 1 2 3))",
    "loop-in-for-each-callback": "(for-each (lambda (x) (let loop ((i 0)) (loop (+ i 1)))) (list 1 2 3))",
    "loop-in-filter-callback": "(filter (lambda (x) (let loop ((i 0)) (loop (+ i 1)))) (list 1 2 3))",
    "loop-in-transduce": "(transduce (list 1 2 3) (mapping (lambda (x) (let loop ((i 0)) (loop (+ i 1))))) (into-list))",
    "loop-in-hash-iteration": "(map (lambda (k) (let loop ((i 0)) (loop (+ i 1)))) (hash-keys->list (hash 'a 1 'b 2)))",
    "loop-in-handler": "(with-handler (lambda (e) (let loop ((i 0)) (loop (+ i 1)))) (error \"x\"))",
    "loop-in-wind-before-thunk": "(dynamic-wind (lambda () (let loop ((i 0)) (loop (+ i 1)))) (lambda () 1) (lambda () 2))",
    "loop-in-wind-after-thunk": "(dynamic-wind (lambda () 0) (lambda () 1) (lambda () (let loop ((i 0)) (loop (+ i 1)))))",
    "loop-via-apply": "(define (loop i) (apply loop (list (+ i 1))))\n(loop 0)",
    "loop-via-parameter": "(define (loop f i) (f f (+ i 1)))\n(loop loop 0)",
    "generator-via-continuations": "(define k #f)\n(define n 0)\n(begin (call/cc (lambda (c) (set! k c))) (set! n (+ n 1)) (k #f))",
    "allocating-loop": "(define (loop i acc) (loop (+ i 1) (cons i (box acc))))\n(loop 0 '())",
    "allocating-loop-bounded-live-set": "(define (loop i) (box (vector i i)) (loop (+ i 1)))\n(loop 0)",
    "string-building-loop": "(define (loop s) (loop (string-append \"a\" (substring s 0 (min 5 (string-length s))))))\n(loop \"\")",
    "loop-with-handler-installed-each-iteration": "(define (loop i) (with-handler (lambda (e) 0) (+ i 1)) (loop (+ i 1)))\n(loop 0)",
    # the error raised by the request is caught by a handler that carries on: the request must keep stopping the program
    "supervisor-restarts-the-job": "(define (job) (let loop ((i 0)) (loop (+ i 1))))\n(define (supervise n) (with-handler (lambda (e) (supervise (+ n 1))) (job)))\n(supervise 0)",
    "handler-that-loops-after-catching": "(with-handler (lambda (e) (let loop ((i 0)) (loop (+ i 1)))) (let loop2 ((j 0)) (loop2 (+ j 1))))",
    "after-thunk-that-loops": "(dynamic-wind (lambda () 0) (lambda () (let loop2 ((j 0)) (loop2 (+ j 1)))) (lambda () (let loop ((i 0)) (loop (+ i 1)))))",
    "retry-in-a-loop": "(define (attempt) (with-handler (lambda (e) 'failed) (let loop ((i 0)) (loop (+ i 1)))))\n(define (forever n) (attempt) (forever (+ n 1)))\n(forever 0)",
    "closure-call-loop": "(define (make) (lambda (x) (+ x 1)))\n(define (loop f i) (loop (make) (f i)))\n(loop (make) 0)",
}

PROBE_SETUP = "(define (vf-ok x) (* x 3))"
PROBE = "(list (vf-ok 14) (let loop ((i 0) (a 0)) (if (= i 5) a (loop (+ i 1) (+ a i)))) (with-handler (lambda (e) 'h) (car (vector->list (vector)))))"
PROBE_EXPECT = ['(L i:42 i:10 y:"h")']


def main(tier):
    rep = core.Reporter("C17", tier)
    delays = [0, 3, 40, 250] if tier == "quick" else [0, 1, 2, 5, 10, 20, 40, 80, 150, 300, 600]
    reps = 1 if tier == "quick" else 12
    r = core.rng("C17")
    rep.coverage["rule"] = (
        "every non-terminating shape (self / mutual tail loops, named let, do, non-tail recursion, loops inside map / foldl / "
        "for-each / filter / transduce / hash-iteration callbacks, in a handler, in wind thunks, via apply, via a parameter, "
        "continuation generator, allocating and string-building loops) x {JIT on, off} x {top level, module} x interrupt delays "
        "from 0 to 600 ms (so the request lands during compilation, in native code, in a primitive, at a safepoint); distinct "
        "by (shape, config, delay); non-trivial = the program had started when the request was sent")
    cases = []
    meta = {}
    for cname, env, as_module in (("default", {}, False), ("nojit", {"STEEL_JIT": "false"}, False), ("module", {}, True)):
        for name, src in SHAPES.items():
            for d in delays:
                for k in range(reps):
                    delay = d + (r.randint(0, max(1, d // 3)) if k else 0)
                    cid = "%s|%s|%d|%d" % (cname, name, delay, k)
                    text = src
                    if as_module:
                        import os
                        text = None
                    meta[cid] = (cname, env, name, delay, src, as_module)
                    # delays above 10 ms count from the moment the program reports that it runs (verif-tick "go"), so that a
                    # slow compilation cannot move the request in front of the VM loop; delays <= 10 ms stay relative to
                    # the call of Engine::run on purpose (requests that land during compilation)
                    synced = delay > 10
                    text = ('(verif-tick "go")\n' + src) if synced else src
                    meta[cid] = (cname, env, name, delay, text, as_module)
                    cases.append({"id": cid, "src": text if not as_module else "(require \"MODULE:%s%s\")" % ("S-" if synced else "", name),
                                  "delay_ms": delay, "setup": PROBE_SETUP, "probe": PROBE, "timeout_ms": 25000, "_env": cname,
                                  "wait_tick": "go" if synced else ""})
    # module mode: write the shapes to files once
    import os
    moddir = os.path.join(core.SCRATCH, "c17-modules-%d" % os.getpid())
    os.makedirs(moddir, exist_ok=True)
    for name, src in SHAPES.items():
        with open(os.path.join(moddir, name + ".scm"), "w") as f:
            f.write(src + "\n")
        with open(os.path.join(moddir, "S-" + name + ".scm"), "w") as f:
            f.write('(verif-tick "go")\n' + src + "\n")
    for c in cases:
        if c["src"].startswith("(require \"MODULE:"):
            nm = c["src"][len("(require \"MODULE:"):-2]
            c["src"] = "(require \"%s\")" % os.path.join(moddir, nm + ".scm")
    results = {}
    for cname, env in (("default", {}), ("nojit", {"STEEL_JIT": "false"}), ("module", {})):
        sub = [dict((k, v) for k, v in c.items() if k != "_env") for c in cases if c["_env"] == cname]
        res, m = core.run_cases(sub, subcmd="intr", env=env, tag="c17", shards=8)
        results.update(res)
        for e in m["harness_errors"]:
            rep.inconclusive_note("harness: %s" % e)
    import shutil
    shutil.rmtree(moddir, ignore_errors=True)
    slow = 0
    lat = []
    for cid, (cname, env, name, delay, src, as_module) in meta.items():
        res = results.get(cid)
        if res is None:
            continue
        rep.count()
        replay = {"config": env, "shape": name, "src": src, "delay_ms": delay, "as_module": as_module}
        if res.get("started"):
            rep.nontrivial(cid)
        obs = res.get("obs")
        oom = res["status"] != "ok" and "memory allocation of" in res.get("stderr_tail", "")
        if res["status"] == "timeout" or oom or (obs is None and res["status"] == "ok"):
            if delay <= 10:
                rep.violation("C17 an interrupt requested within the first 10 ms of Engine::run (before the VM loop polls) is lost: the evaluation never stops",
                              "config=%s shape=%s delay=%dms status=%s" % (cname, name, delay, res["status"]), replay)
                continue
            rep.violation("C17 %s: evaluation does not stop after an interrupt request (%s)" % (name, "module" if as_module else ("JIT off" if env else "JIT on")),
                          "config=%s delay=%dms: Engine::run had not returned %d ms after the request" % (cname, delay, 25000 - delay), replay)
            continue
        if res["status"] != "ok":
            rep.violation("C17 %s: engine process %s while being interrupted" % (name, res["status"]),
                          "config=%s delay=%d stderr=%s" % (cname, delay, res.get("stderr_tail", "")[-300:]), replay)
            continue
        if obs.get("panic") or obs.get("result") == "panic":
            rep.violation("C17 %s: panic while being interrupted (%s)" % (name, core.panic_sig(tuple(obs["panic"])) if obs.get("panic") else "?"),
                          "config=%s delay=%d" % (cname, delay), replay)
            continue
        if obs.get("result") == "ok":
            rep.violation("C17 %s: a non-terminating evaluation returned Ok after the interrupt" % name, "config=%s delay=%d" % (cname, delay), replay)
            continue
        after = obs["returned_ms"] - obs["interrupt_sent_ms"]
        lat.append(after)
        if after > 2000:
            slow += 1
        if (obs.get("probe") or [None])[-1:] != PROBE_EXPECT:
            rep.violation("C17 %s: engine not usable after interrupt + resume" % name,
                          "config=%s delay=%d probe=%s probe_err=%s" % (cname, delay, obs.get("probe"), obs.get("probe_err")), replay)
            continue
        if len(rep.coverage["samples"]) < 6 and name not in [s["shape"] for s in rep.coverage["samples"]]:
            rep.sample({"shape": name, "config": cname, "interrupt_sent_after_ms": obs["interrupt_sent_ms"],
                        "run_returned_ms_after_request": after, "error": obs.get("err", "")[:80], "probe_after_resume": obs.get("probe")})
    lat.sort()
    if lat:
        rep.note("ms_from_request_to_return", {"median": lat[len(lat) // 2], "p95": lat[int(len(lat) * 0.95) - 1], "max": lat[-1]})
    rep.note("slow_returns_over_2s", slow)
    rep.assumptions += ["'bounded number of further steps' is decided as: Engine::run returns within 20 s of the request on a machine "
                        "that is running 8 such children at once; the exact step count is not observable without a dispatch counter hook"]
    return rep.finish()


def replay(path):
    d = json.load(open(path))["replay"]
    src = d["src"]
    res, _ = core.run_cases([{"id": "r", "src": src, "delay_ms": d["delay_ms"], "setup": PROBE_SETUP, "probe": PROBE, "timeout_ms": 25000,
                              "wait_tick": "go" if 'verif-tick "go"' in src else ""}],
                            subcmd="intr", env=d.get("config"), shards=1)
    r = res["r"]
    print(json.dumps(r, indent=1))
    obs = r.get("obs") or {}
    if r["status"] != "ok" or obs.get("result") != "err" or (obs.get("probe") or [None])[-1:] != PROBE_EXPECT:
        print("VIOLATION property=C17 replay=%s" % path)
        return 1
    return 0
