"""C18 — arbitrarily deep, wide or cyclic values are handled without exhausting the host.

One forked child per (shape x operation x depth x stack size).  Monitors: the child's exit status
(SIGSEGV / abort / 'has overflowed its stack' = native recursion proportional to the value's depth),
the panic hook, and for small cyclic structures a termination deadline."""
import json

from . import core

PRELUDE = """(struct vf-node (a b))
(struct vf-mnode (a b) #:mutable)
(define (vf-build-n n f) (let loop ((i 0) (acc 0)) (if (= i n) acc (loop (+ i 1) (f i acc)))))
(define (vf-str x) (let ((p (open-output-string))) (write x p) (string-length (get-output-string p))))
(define (vf-dstr x) (let ((p (open-output-string))) (display x p) (string-length (get-output-string p))))"""

# builder expression given depth symbol D and a leaf LEAF (so that an unequal twin can be made)
SHAPES = {
    "nested-list": "(vf-build-n D (lambda (i acc) (if (= i 0) (list LEAF) (list acc))))",
    "long-list": "(vf-build-n D (lambda (i acc) (if (= i 0) (list LEAF) (cons i acc))))",
    "pair-chain-cdr": "(vf-build-n D (lambda (i acc) (if (= i 0) LEAF (cons i acc))))",
    "pair-chain-car": "(vf-build-n D (lambda (i acc) (if (= i 0) LEAF (cons acc i))))",
    "nested-mutable-vector": "(vf-build-n D (lambda (i acc) (if (= i 0) (vector LEAF) (vector acc))))",
    "nested-immutable-vector": "(vf-build-n D (lambda (i acc) (if (= i 0) (immutable-vector LEAF) (immutable-vector acc))))",
    "nested-hash-value": "(vf-build-n D (lambda (i acc) (if (= i 0) (hash 'k LEAF) (hash 'k acc))))",
    "nested-hash-key": "(vf-build-n (min D 2000) (lambda (i acc) (if (= i 0) (hash LEAF 'v) (hash acc 'v))))",
    "nested-hashset": "(vf-build-n (min D 2000) (lambda (i acc) (if (= i 0) (hashset LEAF) (hashset acc))))",
    "nested-struct": "(vf-build-n D (lambda (i acc) (if (= i 0) (vf-node LEAF 0) (vf-node acc i))))",
    "nested-mutable-struct": "(vf-build-n D (lambda (i acc) (if (= i 0) (vf-mnode LEAF 0) (vf-mnode acc i))))",
    "nested-box": "(vf-build-n D (lambda (i acc) (if (= i 0) (box LEAF) (box acc))))",
    "closure-chain": "(vf-build-n D (lambda (i acc) (if (= i 0) (lambda () LEAF) (lambda () acc))))",
    "stream": "(vf-build-n D (lambda (i acc) (if (= i 0) (stream-cons LEAF empty-stream) (stream-cons i acc))))",
    "mixed": "(vf-build-n D (lambda (i acc) (if (= i 0) (list LEAF) (let ((k (modulo i 5))) (cond ((= k 0) (list acc)) ((= k 1) (vector acc)) ((= k 2) (box acc)) ((= k 3) (vf-node acc i)) (else (cons acc i)))))))",
    "wide-vector": "(make-vector D LEAF)",
    "wide-hash": "(vf-build-n (min D 200000) (lambda (i acc) (if (= i 0) (hash 0 LEAF) (hash-insert acc i i))))",
    "long-string": "(make-string D #\\\\a)",
}
NO_EQUAL = ("closure-chain", "stream")

CYCLES = {
    "box-self": "(let ((b (box 0))) (set-box! b b) b)",
    "vector-self": "(let ((v (vector 1 2))) (vector-set! v 0 v) v)",
    "struct-self": "(let ((s (vf-mnode 1 2))) (set-vf-mnode-a! s s) s)",
    "box-vector-2cycle": "(let* ((b (box 0)) (v (vector b 1))) (set-box! b v) b)",
    "struct-box-vector-3cycle": "(let* ((b (box 0)) (v (vector b)) (s (vf-mnode v 0))) (set-box! b s) s)",
    "list-in-cycle": "(let* ((b (box 0)) (l (list 1 b 2))) (set-box! b l) l)",
    "hash-in-cycle": "(let* ((b (box 0)) (h (hash 'k b))) (set-box! b h) h)",
    "5cycle-mixed": "(let* ((b1 (box 0)) (v (vector b1)) (s (vf-mnode v 1)) (b2 (box s)) (l (list b2))) (set-box! b1 l) l)",
    "closure-self": "(let ((b (box 0))) (set-box! b (lambda () b)) b)",
}

OPS = {
    "build": "(begin (define v BUILD) 'built)",
    "equal-same": "(begin (define v BUILD) (define w BUILD) (equal? v w))",
    "equal-diff": "(begin (define v BUILD) (define w BUILD2) (equal? v w))",
    "hash-key": "(begin (define v BUILD) (define w BUILD) (hash-ref (hash v 1) w))",
    "hashset-member": "(begin (define v BUILD) (define w BUILD) (hashset-contains? (hashset v) w))",
    "write": "(begin (define v BUILD) (> (vf-str v) 0))",
    "display": "(begin (define v BUILD) (> (vf-dstr v) 0))",
    "thread-return": "(begin (define t (spawn-native-thread (lambda () BUILD))) (thread-join! t) 'joined)",
    "channel-send": "(begin (define v BUILD) (define ch (channels/new)) (channel/send (channels-sender ch) v) (channel/recv (channels-receiver ch)) 'received)",
    "collect-live": "(begin (define v BUILD) (#%verif-full-gc) (#%gc-collect) (if v 'alive 'alive))",
    "drop-main": "(begin (define v BUILD) (set! v #f) (#%verif-full-gc) 'dropped)",
    "drop-local": "(begin (define (f) (let ((x BUILD)) 1)) (f) (#%verif-full-gc) 'dropped)",
    "drop-thread": "(begin (thread-join! (spawn-native-thread (lambda () (let ((x BUILD)) 1)))) 'dropped)",
}
CYCLE_OPS = ["build", "equal-same", "hash-key", "write", "display", "collect-live", "drop-main", "channel-send"]


def main(tier):
    rep = core.Reporter("C18", tier)
    depths = [1000, 100000] if tier == "quick" else [1000, 100000, 1000000]
    stacks = [0] if tier == "quick" else [0, 1024]
    rep.coverage["rule"] = (
        "one forked child per (shape x operation x depth x stack limit): shapes = nested/long lists, pair chains, mutable "
        "and immutable vectors, hash maps (as value and as key), hash sets, immutable and mutable structs, boxes, closure "
        "chains, streams, mixed, wide vector/hash/string; cycles of length 1..5 through boxes, vectors, mutable struct "
        "fields, lists and hash maps; operations = build, equal? (equal and unequal twins), hash as key / set member, "
        "write, display, return from a thread, send through a channel, full collection while live, drop in main thread / "
        "from a local / in a spawned thread; distinct by (shape, operation, depth, stack); non-trivial = the child "
        "reported an outcome (value, error value, or death)")
    cases = []
    meta = {}
    for shape, b in SHAPES.items():
        for op, tmpl in OPS.items():
            if op.startswith("equal") and shape in NO_EQUAL:
                continue
            if op in ("hash-key", "hashset-member") and shape in NO_EQUAL:
                continue
            for d in depths:
                if shape in ("wide-hash",) and d > 100000:
                    continue
                for st in stacks:
                    build = b.replace("D", str(d)).replace("LEAF", "1")
                    build2 = b.replace("D", str(d)).replace("LEAF", "2")
                    src = tmpl.replace("BUILD2", build2).replace("BUILD", build)
                    cid = "%s|%s|%d|%d" % (shape, op, d, st)
                    meta[cid] = (shape, op, d, st, src, False)
                    cases.append({"id": cid, "units": [PRELUDE, src], "timeout_ms": 45000 if tier == "quick" else 180000, "mem_mb": 8192, "stack_kb": st})
    for shape, b in CYCLES.items():
        for op in CYCLE_OPS:
            src = OPS[op].replace("BUILD2", b).replace("BUILD", b)
            cid = "cyc|%s|%s" % (shape, op)
            meta[cid] = (shape, op, 0, 0, src, True)
            cases.append({"id": cid, "units": [PRELUDE, src], "timeout_ms": 60000, "mem_mb": 8192})
    results, m = core.run_cases(cases, tag="c18")
    for e in m["harness_errors"]:
        rep.inconclusive_note("harness: %s" % e)
    table = {}
    for cid, (shape, op, d, st, src, cyc) in meta.items():
        res = results.get(cid)
        if res is None:
            continue
        rep.count()
        rep.nontrivial(cid)
        replay = {"src": src, "stack_kb": st, "cyclic": cyc}
        where = "cyclic %s" % shape if cyc else shape
        if res["status"] == "timeout":
            if cyc:
                rep.violation("C18 %s %s: does not terminate" % (where, op), "src=%s" % src, replay)
            else:
                rep.inconclusive_note("timeout (depth %d): %s %s" % (d, shape, op))
            table[(where, op)] = "timeout"
            continue
        if res["status"] != "ok":
            err = res.get("stderr_tail", "")
            if "memory allocation of" in err:
                rep.inconclusive_note("address-space cap hit: %s %s depth %d" % (shape, op, d))
                continue
            kind = "native stack overflow" if ("overflowed its stack" in err or res["status"] == "signal:11") else "process " + res["status"]
            import re
            mm = re.search(r"VHPANIC ([^\n|]+?):\d+ \| ([^\n]*)", err)
            if mm:
                kind = "abort after panic at %s" % mm.group(1)
            rep.violation("C18 %s %s: %s" % (where, op, kind), "depth=%d stack_kb=%d src=%s stderr=%s" % (d, st, src, err[-200:]), replay)
            table[(where, op)] = kind
            continue
        us = res["units"]
        u = us[1] if len(us) > 1 else {}
        if u.get("panics"):
            rep.violation("C18 %s %s: panic at %s" % (where, op, core.panic_sig(u["panics"][0])), "depth=%d src=%s" % (d, src), replay)
            continue
        out = u["vals"][-1] if u.get("ok") and u.get("vals") else "Err " + str(u.get("kind"))
        table.setdefault((where, op), out)
        # functional expectations where the operation completed
        if u.get("ok"):
            want = {"equal-same": "#t", "equal-diff": "#f", "hash-key": "i:1", "hashset-member": "#t"}.get(op)
            if want and out != want and not cyc:
                # a wrong *answer* is C11's business; recorded here, judged there
                rep.add("functional_mismatches_left_to_C11")
        if len(rep.coverage["samples"]) < 8 and (d >= 100000 or cyc):
            rep.sample({"shape": where, "operation": op, "depth": d, "program": src, "outcome": out})
    rep.note("outcome_table", {"%s / %s" % k: v for k, v in sorted(table.items())})
    rep.assumptions += ["an error value is an accepted outcome; time-outs on deep (non-cyclic) values and address-space-cap "
                        "aborts are inconclusive"]
    return rep.finish()


def replay(path):
    d = json.load(open(path))["replay"]
    res, _ = core.run_cases([{"id": "r", "units": [PRELUDE, d["src"]], "timeout_ms": 180000, "mem_mb": 12288,
                              "stack_kb": d.get("stack_kb", 0)}], shards=1)
    r = res["r"]
    print(json.dumps(r, indent=1)[:2500])
    if r["status"] != "ok" or any(u.get("panics") for u in r["units"]):
        print("VIOLATION property=C18 replay=%s" % path)
        return 1
    return 0
