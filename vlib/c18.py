"""C18 — arbitrarily deep, wide or cyclic values are handled without exhausting the host.

One forked child per (shape x operation x depth x stack size).  Monitors: the child's exit status
(SIGSEGV / abort / 'has overflowed its stack' = native recursion proportional to the value's depth),
the panic hook, and for small cyclic structures a termination deadline."""
import json

from . import core

PRELUDE = """(struct vf-node (a b))
(struct vf-mnode (a b) #:mutable)
(define (vf-build-n n f) (let loop ((i 0) (acc 0)) (if (= i n) acc (loop (+ i 1) (f i acc)))))
(define (vf-str x) (let ((p (open-output-string))) (write x p) (string-length (get-output-string p))))
(define (vf-dstr x) (let ((p (open-output-string))) (display x p) (string-length (get-output-string p))))"""

# builder expression given depth symbol D and a leaf LEAF (so that an unequal twin can be made)
SHAPES = {
    "nested-list": "(vf-build-n D (lambda (i acc) (if (= i 0) (list LEAF) (list acc))))",
    "long-list": "(vf-build-n D (lambda (i acc) (if (= i 0) (list LEAF) (cons i acc))))",
    "pair-chain-cdr": "(vf-build-n D (lambda (i acc) (if (= i 0) LEAF (cons i acc))))",
    "pair-chain-car": "(vf-build-n D (lambda (i acc) (if (= i 0) LEAF (cons acc i))))",
    "nested-mutable-vector": "(vf-build-n D (lambda (i acc) (if (= i 0) (vector LEAF) (vector acc))))",
    "nested-immutable-vector": "(vf-build-n D (lambda (i acc) (if (= i 0) (immutable-vector LEAF) (immutable-vector acc))))",
    "nested-hash-value": "(vf-build-n D (lambda (i acc) (if (= i 0) (hash 'k LEAF) (hash 'k acc))))",
    "nested-hash-key": "(vf-build-n (min D 2000) (lambda (i acc) (if (= i 0) (hash LEAF 'v) (hash acc 'v))))",
    "nested-hashset": "(vf-build-n (min D 2000) (lambda (i acc) (if (= i 0) (hashset LEAF) (hashset acc))))",
    "nested-struct": "(vf-build-n D (lambda (i acc) (if (= i 0) (vf-node LEAF 0) (vf-node acc i))))",
    "nested-mutable-struct": "(vf-build-n D (lambda (i acc) (if (= i 0) (vf-mnode LEAF 0) (vf-mnode acc i))))",
    "nested-box": "(vf-build-n D (lambda (i acc) (if (= i 0) (box LEAF) (box acc))))",
    "closure-chain": "(vf-build-n D (lambda (i acc) (if (= i 0) (lambda () LEAF) (lambda () acc))))",
    "stream": "(vf-build-n D (lambda (i acc) (if (= i 0) (stream-cons LEAF (lambda () empty-stream)) (let ((rest acc)) (stream-cons i (lambda () rest))))))",
    "mixed": "(vf-build-n D (lambda (i acc) (if (= i 0) (list LEAF) (let ((k (modulo i 5))) (cond ((= k 0) (list acc)) ((= k 1) (vector acc)) ((= k 2) (box acc)) ((= k 3) (vf-node acc i)) (else (cons acc i)))))))",
    "wide-vector": "(make-vector D LEAF)",
    "wide-hash": "(vf-build-n (min D 200000) (lambda (i acc) (if (= i 0) (hash 0 LEAF) (hash-insert acc i i))))",
    "long-string": "(make-string D #\\a)",
}
NO_EQUAL = ("closure-chain", "stream")

CYCLES = {
    "box-self": "(let ((b (box 0))) (set-box! b b) b)",
    "vector-self": "(let ((v (vector 1 2))) (vector-set! v 0 v) v)",
    "struct-self": "(let ((s (vf-mnode 1 2))) (set-vf-mnode-a! s s) s)",
    "box-vector-2cycle": "(let* ((b (box 0)) (v (vector b 1))) (set-box! b v) b)",
    "struct-box-vector-3cycle": "(let* ((b (box 0)) (v (vector b)) (s (vf-mnode v 0))) (set-box! b s) s)",
    "list-in-cycle": "(let* ((b (box 0)) (l (list 1 b 2))) (set-box! b l) l)",
    "hash-in-cycle": "(let* ((b (box 0)) (h (hash 'k b))) (set-box! b h) h)",
    "5cycle-mixed": "(let* ((b1 (box 0)) (v (vector b1)) (s (vf-mnode v 1)) (b2 (box s)) (l (list b2))) (set-box! b1 l) l)",
    "closure-self": "(let ((b (box 0))) (set-box! b (lambda () b)) b)",
    # witnesses of defects found by the seeded-graph exploration (cycles through vectors only)
    "vector-cycle-with-shared-pair": "(let* ((g0 (vector 0 0)) (g2 (vector 0 g0)) (g3 (cons g2 g2))) (vector-set! g0 0 g2) (vector-set! g2 0 g3) g0)",
    "hash-in-vector-cycle": "(let* ((v (vector 0 1)) (h (hash 'k v))) (vector-set! v 0 h) h)",
    "mutable-struct-vector-cycle": "(let* ((s (vf-mnode 0 1)) (v (vector s 2))) (set-vf-mnode-a! s v) v)",
}

# a deep value held inside a container of another kind (depth 10^5, 1 MB native stack): the outer container's drop /
# equality / printing code reaches the inner value from inside its own traversal
WRAPPERS = {
    "in-vector": "(vector INNER 1)",
    "in-list": "(list 0 INNER 1)",
    "in-box": "(box INNER)",
    "in-hash": "(hash 'k INNER)",
    "in-struct": "(vf-node INNER 0)",
    "in-mutable-struct": "(vf-mnode 0 INNER)",
    "in-closure": "(let ((held INNER)) (lambda () held))",
    "in-channel": "(let ((c (channels/new))) (channel/send (channels-sender c) INNER) c)",
    "in-channel-in-vector": "(vector 1 (let ((c (channels/new))) (channel/send (channels-sender c) INNER) c))",
    "in-channel-in-list": "(list (let ((c (channels/new))) (channel/send (channels-sender c) INNER) c) 2)",
}
WRAP_INNER = ["nested-list", "pair-chain-cdr", "pair-chain-car", "nested-mutable-vector", "nested-struct", "nested-box", "closure-chain",
              "nested-hash-value", "mixed"]
WRAP_OPS = ["drop-main", "drop-local", "equal-same", "write"]
OPAQUE_WRAPPERS = ("in-closure", "in-channel", "in-channel-in-vector", "in-channel-in-list")

# rings: one cycle through N mutable containers
RINGS = {
    "vector-ring": "(let ((first (vector 0 0))) (let loop ((i 1) (prev first)) (if (< i N) (loop (+ i 1) (vector prev i)) (begin (vector-set! first 0 prev) first))))",
    "box-ring": "(let ((first (box 0))) (let loop ((i 1) (prev first)) (if (< i N) (loop (+ i 1) (box prev)) (begin (set-box! first prev) first))))",
    "struct-ring": "(let ((first (vf-mnode 0 0))) (let loop ((i 1) (prev first)) (if (< i N) (loop (+ i 1) (vf-mnode prev i)) (begin (set-vf-mnode-a! first prev) first))))",
    "vector-list-ring": "(let ((first (vector 0 0))) (let loop ((i 1) (prev first)) (if (< i N) (loop (+ i 1) (if (even? i) (vector prev i) (list i prev))) (begin (vector-set! first 0 prev) first))))",
}
RING_OPS = ["build", "equal-same", "collect-live", "drop-main", "channel-send", "write"]


def cyclic_graph(r):
    """A seeded small cyclic object graph of the class on which the unchanged engine is clean: every node holds exactly one
    reference to another node (no node is reachable along two different paths - shared references into a cycle, and cycles
    through boxes, mutable struct fields and hash maps, have fixed named witnesses in CYCLES because printing / comparing
    them is already broken, findings C18-F02..F04, F09, F10), the only mutable kind is the vector.  Node 0 is a mutable
    vector; node i > 0 refers to node i-1; afterwards node 0 is pointed at a seeded node k >= 0 (a cycle through nodes 0..k,
    entered from the nodes above k through a tail), and so the cycle is entered through a list, a pair, an immutable vector,
    a struct or a vector depending on the root.  Returns (definitions text, kinds, edges)."""
    n = r.randint(2, 6)
    every = ["mvector", "mvector", "list", "ivector", "pair", "struct"]
    kinds = ["mvector"] + [r.choice(every) for _ in range(n - 1)]
    L = []
    fields = []
    for i, k in enumerate(kinds):
        f0 = i - 1 if i > 0 else None
        fields.append([f0])
        a = "g%d" % f0 if f0 is not None else "0"
        first = r.random() < 0.5
        ctor = {"mvector": "(vector %s %s)", "list": "(list %s %s)", "ivector": "(immutable-vector %s %s)", "pair": "(cons %s %s)",
                "struct": "(vf-node %s %s)"}[k]
        # the reference sits in the first or in the second position (a mutable vector is re-pointed through slot 0)
        L.append("(define g%d %s)" % (i, ctor % ((a, i) if first or k == "mvector" else (i, a))))
    t = r.randrange(n)
    L.append("(vector-set! g0 0 g%d)" % t)
    fields[0][0] = t
    edges = {i: {x for x in fields[i] if x is not None} for i in range(n)}
    return "\n".join(L), kinds, edges


def cyclic_kinds(kinds, edges, root):
    """kinds of the nodes that lie on some cycle reachable from `root`"""
    n = len(kinds)
    reach = {i: set() for i in range(n)}
    for i in range(n):
        todo = list(edges[i])
        while todo:
            x = todo.pop()
            if x not in reach[i]:
                reach[i].add(x)
                todo.extend(edges[x])
    from_root = reach[root] | {root}
    return sorted({kinds[i] for i in from_root if i in reach[i]})


GRAPH_OPS = {
    "display": "(> (vf-dstr ROOT) 0)",
    "write": "(> (vf-str ROOT) 0)",
    "equal-same": "(equal? ROOT ROOT2)",
    "channel-send": "(begin (define ch (channels/new)) (channel/send (channels-sender ch) ROOT) (channel/recv (channels-receiver ch)) 'received)",
    "drop": "(begin (set! ROOT #f) (#%verif-full-gc) 'dropped)",
}

OPS = {
    "build": "(begin (define v BUILD) 'built)",
    "equal-same": "(begin (define v BUILD) (define w BUILD) (equal? v w))",
    "equal-diff": "(begin (define v BUILD) (define w BUILD2) (equal? v w))",
    "hash-key": "(begin (define v BUILD) (define w BUILD) (hash-ref (hash v 1) w))",
    "hashset-member": "(begin (define v BUILD) (define w BUILD) (hashset-contains? (hashset v) w))",
    "write": "(begin (define v BUILD) (> (vf-str v) 0))",
    "display": "(begin (define v BUILD) (> (vf-dstr v) 0))",
    "thread-return": "(begin (define t (spawn-native-thread (lambda () BUILD))) (thread-join! t) 'joined)",
    "channel-send": "(begin (define v BUILD) (define ch (channels/new)) (channel/send (channels-sender ch) v) (channel/recv (channels-receiver ch)) 'received)",
    "collect-live": "(begin (define v BUILD) (#%verif-full-gc) (#%gc-collect) (if v 'alive 'alive))",
    "drop-main": "(begin (define v BUILD) (set! v #f) (#%verif-full-gc) 'dropped)",
    "drop-local": "(begin (define (f) (let ((x BUILD)) 1)) (f) (#%verif-full-gc) 'dropped)",
    "drop-thread": "(begin (thread-join! (spawn-native-thread (lambda () (let ((x BUILD)) 1)))) 'dropped)",
}
CYCLE_OPS = ["build", "equal-same", "hash-key", "write", "display", "collect-live", "drop-main", "channel-send"]


def main(tier):
    rep = core.Reporter("C18", tier)
    depths = [1000, 100000] if tier == "quick" else [1000, 100000, 1000000]
    stacks = [0] if tier == "quick" else [0, 1024]
    rep.coverage["rule"] = (
        "one forked child per (shape x operation x depth x stack limit): shapes = nested/long lists, pair chains, mutable "
        "and immutable vectors, hash maps (as value and as key), hash sets, immutable and mutable structs, boxes, closure "
        "chains, streams, mixed, wide vector/hash/string; cycles of length 1..5 through boxes, vectors, mutable struct "
        "fields, lists and hash maps; operations = build, equal? (equal and unequal twins), hash as key / set member, "
        "write, display, return from a thread, send through a channel, full collection while live, drop in main thread / "
        "from a local / in a spawned thread; distinct by (shape, operation, depth, stack); non-trivial = the child "
        "reported an outcome (value, error value, or death)")
    cases = []
    meta = {}
    for shape, b in SHAPES.items():
        for op, tmpl in OPS.items():
            if op.startswith("equal") and shape in NO_EQUAL:
                continue
            if op in ("hash-key", "hashset-member") and shape in NO_EQUAL:
                continue
            for d in depths:
                if shape in ("wide-hash",) and d > 100000:
                    continue
                for st in stacks:
                    build = b.replace("D", str(d)).replace("LEAF", "1")
                    build2 = b.replace("D", str(d)).replace("LEAF", "2")
                    src = tmpl.replace("BUILD2", build2).replace("BUILD", build)
                    cid = "%s|%s|%d|%d" % (shape, op, d, st)
                    meta[cid] = (shape, op, d, st, src, False)
                    cases.append({"id": cid, "units": [PRELUDE, src], "timeout_ms": 45000 if tier == "quick" else 180000, "mem_mb": 8192, "stack_kb": st})
    for shape, b in CYCLES.items():
        for op in CYCLE_OPS:
            src = OPS[op].replace("BUILD2", b).replace("BUILD", b)
            cid = "cyc|%s|%s" % (shape, op)
            meta[cid] = (shape, op, 0, 0, src, True)
            cases.append({"id": cid, "units": [PRELUDE, src], "timeout_ms": 60000, "mem_mb": 8192})
    # deep values held inside containers of another kind (1 MB native stack: 10 bytes per level overflow it)
    dw = 100000
    for wname, w in WRAPPERS.items():
        for shape in WRAP_INNER:
            for op in WRAP_OPS:
                if op in ("equal-same", "write") and (wname in OPAQUE_WRAPPERS or shape in NO_EQUAL):
                    continue
                build = w.replace("INNER", SHAPES[shape].replace("D", str(dw)).replace("LEAF", "1"))
                src = OPS[op].replace("BUILD2", build).replace("BUILD", build)
                cid = "wrap|%s|%s|%s" % (wname, shape, op)
                meta[cid] = ("%s-%s" % (shape, wname), op, dw, 1024, src, False)
                cases.append({"id": cid, "units": [PRELUDE, src], "timeout_ms": 60000 if tier == "quick" else 180000, "mem_mb": 8192, "stack_kb": 1024})
    # rings through 10^5 mutable containers
    for shape, b in RINGS.items():
        for op in RING_OPS:
            for nring in ([100000] if tier == "quick" else [40000, 100000, 1000000]):
                bb = b.replace("N", str(nring))
                src = OPS[op].replace("BUILD2", bb).replace("BUILD", bb)
                cid = "ring|%s|%s|%d" % (shape, op, nring)
                meta[cid] = ("%s" % shape, op, nring, 0, src, True)
                cases.append({"id": cid, "units": [PRELUDE, src], "timeout_ms": 120000, "mem_mb": 8192})
    # seeded small cyclic graphs, every node as the root of the operation
    r = core.rng("C18-graphs")
    for gi in range(40 if tier == "quick" else 400):
        defs, kinds, edges = cyclic_graph(r)
        defs2 = defs.replace("g", "h")
        for root in range(len(kinds)):
            cyc = cyclic_kinds(kinds, edges, root)
            if not cyc:
                continue
            for op, tmpl in GRAPH_OPS.items():
                body = tmpl.replace("ROOT2", "h%d" % root).replace("ROOT", "g%d" % root)
                src = defs + "\n" + (defs2 + "\n" if op == "equal-same" else "") + body
                label = "graph[root=%s; cycle through %s]" % (kinds[root], "+".join(cyc))
                cid = "graph|%d|%d|%s" % (gi, root, op)
                meta[cid] = (label, op, 0, 0, src, True)
                cases.append({"id": cid, "units": [PRELUDE, src], "timeout_ms": 40000, "mem_mb": 8192})
    results, m = core.run_cases(cases, tag="c18")
    for e in m["harness_errors"]:
        rep.inconclusive_note("harness: %s" % e)
    table = {}
    for cid, (shape, op, d, st, src, cyc) in meta.items():
        res = results.get(cid)
        if res is None:
            continue
        rep.count()
        rep.nontrivial(cid)
        replay = {"src": src, "stack_kb": st, "cyclic": cyc}
        where = "cyclic %s" % shape if cyc else shape
        if res["status"] == "timeout":
            if cyc:
                rep.violation("C18 %s %s: does not terminate" % (where, op), "src=%s" % src, replay)
            else:
                rep.inconclusive_note("timeout (depth %d): %s %s" % (d, shape, op))
            table[(where, op)] = "timeout"
            continue
        if res["status"] != "ok":
            err = res.get("stderr_tail", "")
            if "memory allocation of" in err:
                rep.inconclusive_note("address-space cap hit: %s %s depth %d" % (shape, op, d))
                continue
            kind = "native stack overflow" if ("overflowed its stack" in err or res["status"] == "signal:11") else "process " + res["status"]
            import re
            mm = re.search(r"VHPANIC ([^\n|]+?):\d+ \| ([^\n]*)", err)
            if mm:
                kind = "abort after panic at %s" % mm.group(1)
            rep.violation("C18 %s %s: %s" % (where, op, kind), "depth=%d stack_kb=%d src=%s stderr=%s" % (d, st, src, err[-200:]), replay)
            table[(where, op)] = kind
            continue
        us = res["units"]
        u = us[-1] if len(us) > 1 else {}
        if u.get("panics"):
            rep.violation("C18 %s %s: panic at %s" % (where, op, core.panic_sig(u["panics"][0])), "depth=%d src=%s" % (d, src), replay)
            continue
        out = u["vals"][-1] if u.get("ok") and u.get("vals") else "Err " + str(u.get("kind"))
        table.setdefault((where, op), out)
        # functional expectations where the operation completed
        if u.get("ok"):
            want = {"equal-same": "#t", "equal-diff": "#f", "hash-key": "i:1", "hashset-member": "#t"}.get(op)
            if want and out != want and not cyc:
                # a wrong *answer* is C11's business; recorded here, judged there
                rep.add("functional_mismatches_left_to_C11")
        if len(rep.coverage["samples"]) < 8 and (d >= 100000 or cyc):
            rep.sample({"shape": where, "operation": op, "depth": d, "program": src, "outcome": out})
    for shape in SHAPES:
        o = table.get((shape, "build"))
        if o is not None and str(o).startswith("Err "):
            rep.inconclusive_note("shape %s cannot even be built (%s): it observes nothing" % (shape, o), floor=True)
    rep.note("outcome_table", {"%s / %s" % k: v for k, v in sorted(table.items())})
    rep.assumptions += ["an error value is an accepted outcome; time-outs on deep (non-cyclic) values and address-space-cap "
                        "aborts are inconclusive"]
    return rep.finish()


def replay(path):
    d = json.load(open(path))["replay"]
    res, _ = core.run_cases([{"id": "r", "units": [PRELUDE, d["src"]], "timeout_ms": 180000, "mem_mb": 12288,
                              "stack_kb": d.get("stack_kb", 0)}], shards=1)
    r = res["r"]
    print(json.dumps(r, indent=1)[:2500])
    if r["status"] != "ok" or any(u.get("panics") for u in r["units"]):
        print("VIOLATION property=C18 replay=%s" % path)
        return 1
    return 0
