"""C19 — unreachable mutable storage, including cycles, is eventually reclaimed.

Monitors on logical quantities read through the hook builtin (#%verif-heap-stats) after forced full
collections (#%verif-full-gc runs the engine's own mark code): (i) the number of slots the collector
leaves *live* after each allocation pattern must return to the baseline measured before the pattern
plus the pattern's known live set (+ a small constant); (ii) the allocator's free count must agree
with the slots actually flagged free (accounting-mismatch event of H-heap); (iii) the slot vectors
must stay below a fixed multiple of the live set while 10^5..10^7 short-lived objects are
allocated under the engine's *natural* collection policy; (iv) a weak box whose target became
unreachable reports so after a collection."""
import json
import re

from . import core

PRELUDE = """(struct vf-node (next) #:mutable)
(define (stats) (#%verif-full-gc) (#%verif-heap-stats))
(define (live-values s) (- (list-ref s 0) (list-ref s 2)))
(define (live-vectors s) (- (list-ref s 3) (list-ref s 5)))
(define (box-cycle n) (let ((first (box 0))) (let loop ((i 1) (prev first)) (if (< i n) (loop (+ i 1) (box prev)) (begin (set-box! first prev) 'made)))))
(define (vector-cycle n) (let ((first (vector 0))) (let loop ((i 1) (prev first)) (if (< i n) (loop (+ i 1) (vector prev)) (begin (vector-set! first 0 prev) 'made)))))
(define (struct-cycle n) (let ((first (vf-node 0))) (let loop ((i 1) (prev first)) (if (< i n) (loop (+ i 1) (vf-node prev)) (begin (set-vf-node-next! first prev) 'made)))))
(define (self-closure) (let ((b (box 0))) (set-box! b (lambda () b)) 'made))
(define (mixed-cycle) (let* ((b (box 0)) (v (vector b)) (s (vf-node v))) (set-box! b s) 'made))
(define (repeat n thunk) (let loop ((i 0)) (if (< i n) (begin (thunk) (loop (+ i 1))) 'done)))"""

# name -> (body evaluated between two measurements, number of values / vectors that legitimately stay live)
PATTERNS = {
    "acyclic-boxes": ("(repeat N (lambda () (box 1) (box (box 2))))", 0, 0),
    "acyclic-vectors": ("(repeat N (lambda () (vector 1 2) (vector (vector 3))))", 0, 0),
    "box-cycles-1..50": ("(repeat (quotient N 20) (lambda () (box-cycle 1) (box-cycle 2) (box-cycle 7) (box-cycle 50)))", 0, 0),
    "vector-cycles-1..50": ("(repeat (quotient N 20) (lambda () (vector-cycle 1) (vector-cycle 3) (vector-cycle 50)))", 0, 0),
    "struct-cycles": ("(repeat (quotient N 20) (lambda () (struct-cycle 1) (struct-cycle 5) (struct-cycle 30)))", 0, 0),
    "self-capturing-closures": ("(repeat N (lambda () (self-closure)))", 0, 0),
    "mixed-cycles": ("(repeat N (lambda () (mixed-cycle)))", 0, 0),
    "bounded-live-set-among-garbage": ("(define keep (vector (box 1) (box 2) (box 3)))\n(repeat N (lambda () (vector-set! keep 0 (box (vector-ref keep 1))) (box-cycle 3)))", 4, 1),
    "held-by-a-local-during-a-collection-then-dropped": ("(define (hold) (let ((tmp (vector (box 1) (box 2) (box 3) (box 4)))) (#%verif-full-gc) (vector-length tmp)))\n(repeat 50 (lambda () (hold)))", 0, 0),
    "held-by-a-dead-continuation": ("(define k #f)\n(define (capture) (let ((big (vector (box 1) (box 2) (box 3)))) (call/cc (lambda (c) (set! k c) 0)) (vector-length big)))\n(repeat 50 (lambda () (capture)))\n(set! k #f)", 0, 0),
    "created-by-threads-that-exited": ("(repeat 30 (lambda () (thread-join! (spawn-native-thread (lambda () (box-cycle 20) (vector-cycle 5) 'bye)))))", 0, 0),
    "passed-to-another-thread-and-dropped-there": ("(repeat 30 (lambda () (let ((v (vector (box 1) (box 2)))) (thread-join! (spawn-native-thread (lambda () (vector-length v)))))))", 0, 0),
}

WEAK = """(define wb-dead (let ((target (box 42))) (make-weak-box target)))
(define live-target (box 43))
(define wb-live (make-weak-box live-target))
(box-cycle 3)
(#%verif-full-gc)
(#%gc-collect)
(verif-emit (weak-box-value wb-dead))
(verif-emit (if (weak-box-value wb-live) 'live-target-still-visible 'live-target-reported-dead))"""

# natural-policy programs that allocate directly in self tail-recursive loops (natively compiled when the unit is run as a
# module: the allocation then goes through the native code generator's helpers) and garbage that is created on one thread
# and dropped on another (at most 1 000 messages in flight: the producer waits for an acknowledgement per batch).  name -> (text, ceiling for the value / vector slot vectors; unchanged tree: 256 and 25 856)
DIRECT = {
    "tail-loops-allocating-boxes-vectors-structs": ("""(define (churn-box i) (if (= i 0) 'done (begin (box i) (churn-box (- i 1)))))
(define (churn-vec i) (if (= i 0) 'done (begin (vector i i) (churn-vec (- i 1)))))
(define (churn-struct i) (if (= i 0) 'done (begin (vf-node i) (churn-struct (- i 1)))))
(define samples '())
(define (sample!) (set! samples (cons (#%verif-heap-stats) samples)))
(churn-box N) (sample!) (churn-box N) (sample!) (churn-box N) (churn-box N) (sample!) (churn-vec N) (churn-vec N) (sample!) (churn-struct N) (churn-struct N) (sample!)
(verif-emit (map (lambda (s) (list (list-ref s 0) (list-ref s 3))) samples))""", 100000),
    "garbage-made-on-one-thread-dropped-on-another": ("""(define ch (channels/new))
(define tx (channels-sender ch))
(define rx (channels-receiver ch))
(define ack (channels/new))
(define (send-batch i k) (if (= k 0) i (begin (channel/send tx (cons (box i) (vector i))) (send-batch (+ i 1) (- k 1)))))
(define (producer batches) (let loop ((b 0) (i 0)) (if (< b batches) (let ((next (send-batch i 1000))) (channel/recv (channels-receiver ack)) (loop (+ b 1) next)) 'sent)))
(define samples '())
(define t (spawn-native-thread (lambda () (producer (quotient (* 6 N) 1000)))))
(define (consume-batch k acc) (if (= k 0) acc (consume-batch (- k 1) (+ acc (vector-length (cdr (channel/recv rx)))))))
(define (consume batches) (let loop ((b 0) (acc 0)) (if (< b batches) (let ((a (consume-batch 1000 acc))) (channel/send (channels-sender ack) b) (loop (+ b 1) a)) acc)))
(define (rounds k) (if (= k 0) 'done (begin (consume (quotient N 1000)) (set! samples (cons (#%verif-heap-stats) samples)) (rounds (- k 1)))))
(rounds 6)
(thread-join! t)
(verif-emit (map (lambda (s) (list (list-ref s 0) (list-ref s 3))) samples))""", 250000),
}

SLACK = 24


def ints(canon):
    return [int(x) for x in re.findall(r"i:(-?\d+)", canon)]


def main(tier):
    rep = core.Reporter("C19", tier)
    n_small = 20000 if tier == "quick" else 200000
    n_big = 4000000 if tier == "quick" else 40000000
    rep.coverage["rule"] = (
        "allocation patterns with a known bounded live set (acyclic, cycles of length 1..50 through boxes / vectors / mutable "
        "struct fields, self-capturing closures, mixed cycles, garbage held only by a local during a collection, by a dead "
        "continuation, by exited threads, by values passed to another thread) measured with forced full collections before "
        "and after; natural-policy runs of N short-lived allocations with the slot vectors sampled every N/20; weak boxes; "
        "JIT on and off; distinct by (pattern, N, config); non-trivial = the pattern allocated >= 1000 heap slots")
    cases = []
    meta = {}
    for cname, env in (("default", {}), ("nojit", {"STEEL_JIT": "false"})):
        for name, (body, lv, lvec) in PATTERNS.items():
            for n in (n_small // 10, n_small):
                text = PRELUDE + "\n(verif-emit (stats))\n" + body.replace("N", str(n)) + "\n(verif-emit (stats))\n(verif-emit (stats))"
                cid = "%s|%s|%d" % (cname, name, n)
                meta[cid] = ("pattern", name, n, lv, lvec, cname, env, text)
                cases.append({"id": cid, "units": [text], "timeout_ms": 300000, "no_vals": True, "env": env})
        # natural policy, many allocations, sampling the size of the slot vectors
        for name in ("acyclic-boxes", "box-cycles-1..50", "mixed-cycles", "acyclic-vectors"):
            body = PATTERNS[name][0]
            nsamples = 20 if tier == "quick" else 250
            chunk = max(1, n_big // nsamples)
            text = PRELUDE + "\n(define samples '())\n(repeat %d (lambda () %s (set! samples (cons (#%%verif-heap-stats) samples))))\n(verif-emit (map (lambda (s) (list (list-ref s 0) (list-ref s 3))) samples))" % (nsamples, body.replace("N", str(chunk)))
            cid = "%s|natural:%s|%d" % (cname, name, n_big)
            meta[cid] = ("natural", name, n_big, 0, 0, cname, env, text)
            cases.append({"id": cid, "units": [text], "timeout_ms": 900000, "no_vals": True, "env": env, "mem_mb": 12288})
        for name, (body, ceiling) in DIRECT.items():
            nd = 200000 if tier == "quick" else 2000000
            for as_module in (False, True):
                cid = "%s|direct:%s|%s" % (cname, name, "module" if as_module else "top")
                text = PRELUDE + "\n" + body.replace("N", str(nd))
                meta[cid] = ("direct", name, nd, ceiling, as_module, cname, env, text)
                cases.append({"id": cid, "units": [text], "timeout_ms": 600000, "no_vals": True, "env": env, "as_module": as_module})
        # a history of top-level evaluations on one engine that keeps redefining two globals bound to fresh mutable storage:
        # what a redefinition shadows is garbage (after the global-slot recycler has run)
        n1, n2 = (1500, 4500) if tier == "quick" else (5000, 25000)
        units = [PRELUDE, "(verif-emit (stats))"]
        for i in range(n2):
            units.append("(define payload (vector (box %d) (box %d) (box %d)))\n(define other%d (box %d))" % (i, i, i, i % 3, i))
            if i + 1 in (n1, n2):
                units.append("(verif-emit (stats))")
        cid = "%s|redefine" % cname
        meta[cid] = ("redefine", "redefinition-history", n2, n1, 0, cname, env, "\n".join(units[:6]) + "\n...")
        cases.append({"id": cid, "units": units, "timeout_ms": 600000, "no_vals": True, "env": env})
        cid = "%s|weak" % cname
        meta[cid] = ("weak", "weak-box", 0, 0, 0, cname, env, PRELUDE + "\n" + WEAK)
        cases.append({"id": cid, "units": [PRELUDE + "\n" + WEAK], "timeout_ms": 60000, "no_vals": True, "env": env})
    results = {}
    for cname, env in (("default", {}), ("nojit", {"STEEL_JIT": "false"})):
        sub = [dict((k, v) for k, v in c.items() if k != "env") for c in cases if c["env"] == env]
        res, m = core.run_cases(sub, env=env, tag="c19")
        results.update(res)
        for e in m["harness_errors"]:
            rep.inconclusive_note("harness: %s" % e)
    mismatch_total = 0
    grow = {}
    natural_runs = {}
    for cid, (kind, name, n, lv, lvec, cname, env, text) in meta.items():
        res = results.get(cid)
        if res is None:
            continue
        rep.count()
        replay = {"config": env, "src": text}
        cnt = res.get("counters") or {}
        if cnt.get("ACCOUNTING_MISMATCH"):
            mismatch_total += cnt["ACCOUNTING_MISMATCH"]
            ev = [e for e in (res.get("events") or []) if e[2] == "!accounting-mismatch"]
            rep.violation("C19 %s: free-slot accounting disagrees with the slots flagged free after a full collection" % name,
                          "config=%s events=%s" % (cname, json.dumps(ev[:2])), replay)
        if res["status"] != "ok" or not res["units"] or not all(u_.get("ok") for u_ in res["units"]):
            bad_units = [u_ for u_ in res["units"] if not u_.get("ok")]
            u = bad_units[0] if bad_units else {}
            if res["status"] == "timeout":
                rep.inconclusive_note("timeout: %s %s" % (cname, name))
            else:
                rep.violation("C19 %s: run failed (%s)" % (name, res["status"] if res["status"] != "ok" else u.get("kind")),
                              "config=%s err=%s stderr=%s" % (cname, u.get("err"), res.get("stderr_tail", "")[-200:]), replay)
            continue
        em = res["units"][-1].get("emits") or [] if kind in ("direct",) else res["units"][0].get("emits") or []
        if kind == "pattern":
            if len(em) != 3:
                rep.inconclusive_note("%s: expected 3 measurements" % name)
                continue
            s0, s1, s2 = ints(em[0]), ints(em[1]), ints(em[2])
            lv0, lv1, lv2 = s0[0] - s0[2], s1[0] - s1[2], s2[0] - s2[2]
            vv0, vv1, vv2 = s0[3] - s0[5], s1[3] - s1[5], s2[3] - s2[5]
            if n >= 1000 or "collection" in name or "thread" in name or "continuation" in name:
                rep.nontrivial(cid)
            # the second measurement after the pattern (s2) gives the collector a second chance.  What is judged
            # is growth *with the amount of garbage*: the same pattern at n/10 and at n must leave (nearly) the
            # same number of slots live.  (Values that were roots during one particular collection may stay
            # marked - the dedicated pattern 'held-by-a-local-during-a-collection-then-dropped' measures that.)
            grow[(cname, name)] = grow.get((cname, name), []) + [(n, lv2 - lv0 - lv, vv2 - vv0 - lvec, s2[6])]
            if name == "held-by-a-local-during-a-collection-then-dropped":
                if lv2 > lv0 + SLACK or vv2 > vv0 + SLACK:
                    rep.violation("C19 %s: storage stays live after it became unreachable" % name,
                                  "config=%s live values before/after/after2 = %d/%d/%d, live vectors = %d/%d/%d, mark queue length = %d" % (
                                      cname, lv0, lv1, lv2, vv0, vv1, vv2, s2[6]), replay)
            elif len(rep.coverage["samples"]) < 6:
                rep.sample({"pattern": name, "config": cname, "n": n, "live_values_before_after": [lv0, lv2],
                            "live_vectors_before_after": [vv0, vv2], "slots": [s2[0], s2[3]]})
        elif kind == "direct":
            ceiling = lv
            pairs = ints(em[0]) if em else []
            vals, vecs = pairs[0::2], pairs[1::2]
            rep.nontrivial(cid)
            if not vals:
                rep.inconclusive_note("%s: no samples" % name)
                continue
            natural_runs["%s/%s/%s" % (cname, name, "module" if lvec else "top")] = {
                "allocations_per_loop": n, "peak_value_slots": max(vals), "peak_vector_slots": max(vecs),
                "native_calls": cnt.get("JIT_NATIVE_CALLS", 0), "full_collections": cnt.get("FULL_COLLECTIONS", 0),
                "maxrss_mb": (res.get("maxrss_kb") or 0) // 1024}
            if max(vals) > ceiling or max(vecs) > ceiling:
                rep.violation("C19 natural:%s: the heap grows with the number of short-lived allocations (%s)" % (name, "compiled as a module" if lvec else "top level"),
                              "config=%s loop length=%d ceiling=%d value slots (newest first)=%s vector slots=%s" % (cname, n, ceiling, vals, vecs), replay)
        elif kind == "redefine":
            n1, n2 = lv, n
            meas = [ints(e_) for u_ in res["units"] for e_ in (u_.get("emits") or [])]
            rep.nontrivial(cid)
            if len(meas) != 3:
                rep.inconclusive_note("redefinition history: expected 3 measurements, got %d" % len(meas))
                continue
            lives = [m_[0] - m_[2] for m_ in meas]
            vlives = [m_[3] - m_[5] for m_ in meas]
            natural_runs["%s/redefinition-history" % cname] = {"redefinitions": [0, n1, n2], "live_values": lives, "live_vectors": vlives,
                                                               "recycler_runs": cnt.get("RECYCLER_RUNS", 0), "slots_recycled": cnt.get("SLOTS_RECYCLED", 0)}
            # every redefinition makes 4 boxes and 1 vector garbage; a leak of one binding in eight would show
            if lives[2] - lives[1] > (n2 - n1) * 4 // 8 or vlives[2] - vlives[1] > (n2 - n1) // 8:
                rep.violation("C19 redefinition history: storage held by shadowed global bindings stays live",
                              "config=%s live values after 0/%d/%d redefinitions: %s, live vectors: %s" % (cname, n1, n2, lives, vlives), replay)
        elif kind == "natural":
            pairs = ints(em[0]) if em else []
            vals = pairs[0::2]
            vecs = pairs[1::2]
            rep.nontrivial(cid)
            if not vals:
                rep.inconclusive_note("%s: no samples" % name)
                continue
            # The engine's policy is a sawtooth: the slot vector doubles at every full collection and is compacted
            # after ten doublings (observed on the unchanged tree: peaks of 6.6M slots in the first cycle, 13.3M in the
            # later ones, creeping up by ~1.5 % per cycle - finding C19-F01).  Judged: an absolute ceiling, and - when
            # the run is long enough to contain at least four compactions - that the peaks stop growing: the highest
            # slot count of the second half of the run is at most 1.6 x the highest of the second quarter.
            ceiling = 8000000 if n <= 4000000 else 64000000
            series_v, series_c = vals[::-1], vecs[::-1]    # oldest first
            natural_runs["%s/%s" % (cname, name)] = {"allocations": n, "peak_value_slots": max(vals), "peak_vector_slots": max(vecs),
                                                     "compactions_seen": sum(1 for a, b in zip(series_v, series_v[1:]) if b < a) +
                                                     sum(1 for a, b in zip(series_c, series_c[1:]) if b < a),
                                                     "full_collections": cnt.get("FULL_COLLECTIONS", 0), "maxrss_mb": (res.get("maxrss_kb") or 0) // 1024}
            trend_bad = None
            for label, ser in (("value", series_v), ("vector", series_c)):
                drops = sum(1 for a, b in zip(ser, ser[1:]) if b < a)
                if drops >= 4 and len(ser) >= 40:
                    q2 = max(ser[len(ser) // 4: len(ser) // 2])
                    h2 = max(ser[len(ser) // 2:])
                    if h2 > 1.6 * q2 + 100000:
                        trend_bad = "%s slots: highest in the second quarter of the run %d, in the second half %d" % (label, q2, h2)
            if max(vals) > ceiling or max(vecs) > ceiling or trend_bad:
                rep.violation("C19 natural:%s: the heap grows without bound while the live set is constant" % name,
                              "config=%s allocations=%d %s value slots over time (newest first)=%s vector slots=%s" % (
                                  cname, n, trend_bad or "ceiling %d exceeded;" % ceiling, vals[:60], vecs[:60]), replay)
            elif len(rep.coverage["samples"]) < 8:
                rep.sample({"natural_policy_run": name, "config": cname, "allocations": n, "value_slots_newest_first": vals[:8],
                            "vector_slots_newest_first": vecs[:8], "full_collections": cnt.get("FULL_COLLECTIONS", 0)})
            rep.add("natural_full_collections", cnt.get("FULL_COLLECTIONS", 0))
        else:
            rep.nontrivial(cid)
            if not em or em[0] != "#f":
                rep.violation("C19 weak box: an unreachable target is still reported after a collection", "config=%s observed=%s" % (cname, em), replay)
            rep.note("weak_box_of_a_live_target_after_collection_%s" % cname, em[1] if len(em) > 1 else None)
    for (cname, name), pts in sorted(grow.items()):
        pts.sort()
        if len(pts) == 2 and name != "held-by-a-local-during-a-collection-then-dropped":
            (n1, a1, b1, _), (n2, a2, b2, _) = pts
            # what was a root at the moment of a natural collection may stay marked (finding C19-F01): a handful of
            # slots per collection.  A leak of the garbage itself would be >= (n2 - n1) / 2 slots.
            allowed = SLACK + (n2 - n1) // 200
            if a2 - a1 > allowed or b2 - b1 > allowed:
                rep.violation("C19 %s: live storage grows with the amount of garbage produced" % name,
                              "config=%s excess live values/vectors at n=%d: %d/%d, at n=%d: %d/%d" % (cname, n1, a1, b1, n2, a2, b2),
                              {"config": {} if cname == "default" else {"STEEL_JIT": "false"}, "src": PRELUDE + "\n" + PATTERNS[name][0]})
    rep.note("excess_live_slots_by_pattern", {"%s/%s" % k: v for k, v in grow.items()})
    rep.note("accounting_mismatch_events", mismatch_total)
    rep.note("natural_policy_runs", natural_runs)
    rep.assumptions += ["liveness is read from the reachable flags after a forced full collection (hook H-heap); 'eventually' is decided "
                        "as: reclaimed by the second forced full collection after the pattern ended"]
    return rep.finish()


def replay(path):
    d = json.load(open(path))["replay"]
    res, _ = core.run_cases([{"id": "r", "units": [d["src"]], "timeout_ms": 900000, "no_vals": True, "events": True}], env=d.get("config"), shards=1)
    print(json.dumps(res["r"], indent=1)[:3000])
    print("(re-run ./check C19 to judge the measurements)")
    return 0
