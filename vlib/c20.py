"""C20 — the host boundary converts faithfully and never exposes dangling host references.

The experiment is embedding code (harness/src/host.rs, run in a forked child): (1) round trips of
seeded / boundary values of every supported host type by three routes (IntoSteelVal -> FromSteelVal,
register_value -> extract, through an identity script function), also checking that the value the
*script* sees is the mathematical value; (2) FromSteelVal of script-made values that are out of range
or mistyped for the target type must be Err; (3) recording host functions of several signature
shapes called with every wrong arity / kind must not be entered, valid calls must deliver exactly
the written arguments; (4) a Box-ed host object lent for one call (run_with_reference) and stashed by
the script in a global / list / vector / hash / box / closure / struct field / continuation / thread;
the Box is freed after the call and every later use must be an error that never reaches the host."""
import json
import os
import subprocess

from . import core


def main(tier):
    rep = core.Reporter("C20", tier)
    binp = core.build("plain")
    seeds, n = (4, 60) if tier == "quick" else (64, 2000)
    rep.coverage["rule"] = (
        "host types i8..u64/isize/usize, f32/f64, char, String, bool, Option, Vec (nested), tuples, HashMap, HashSet with boundary "
        "and seeded values x 3 routes; ~55 out-of-range / mistyped conversions; ~50 calls of 14 registered functions with valid and "
        "invalid arity / kinds (direct, apply, map); 11 stash patterns for a lent reference; distinct by (part, case); non-trivial "
        "= every observation (each is a real conversion / call / later use on the engine)")
    d = core.scratch_dir("c20")
    verdicts = {}
    for k in range(seeds):
        outp = os.path.join(d, "host_%d.jsonl" % k)
        try:
            subprocess.run([binp, "host", "--out", outp, "--seed", str(core.seed() * 100 + k), "--n", str(n)], timeout=900,
                           stdout=subprocess.DEVNULL, stderr=subprocess.DEVNULL)
        except subprocess.TimeoutExpired:
            rep.inconclusive_note("host experiment timed out")
            continue
        rows = [json.loads(l) for l in open(outp)] if os.path.exists(outp) else []
        tail = rows[-1] if rows else {}
        if not tail.get("ended"):
            last = [r for r in rows if "part" in r][-1:] or [{}]
            rep.violation("C20 the embedding process dies (%s) after %s" % (tail.get("status"), last[0].get("part")),
                          "last observation=%s stderr=%s" % (json.dumps(last[0])[:300], tail.get("stderr_tail", "")[-300:]), {"seed": k})
        for r in rows:
            if "part" not in r:
                continue
            rep.count()
            rep.nontrivial((r["part"], r["case"]))
            v = r["verdict"]
            verdicts[(r["part"], v)] = verdicts.get((r["part"], v), 0) + 1
            if v in ("ok", "ok-rejected"):
                if len(rep.coverage["samples"]) < 8 and r["part"] not in [s["part"] for s in rep.coverage["samples"]]:
                    rep.sample({"part": r["part"], "case": r["case"], "verdict": v})
                continue
            ty = r["case"].split(":")[0].split(" <- ")[0] if r["part"] in ("roundtrip", "convert") else r["case"].split(" ")[0].strip("(")
            rep.violation("C20 %s: %s (%s)" % (r["part"], v, ty), "case=%s detail=%s" % (r["case"][:200], r["detail"][:300]),
                          {"seed": core.seed() * 100 + k, "case": r["case"]})
    import shutil
    shutil.rmtree(d, ignore_errors=True)
    rep.note("observations_by_verdict", {"%s/%s" % k: v for k, v in sorted(verdicts.items())})
    rep.assumptions += ["a symbol converts to String by an explicit arm of FromSteelVal (pinned as designed)",
                        "use-after-free of the lent object is observed through a magic word in the object, the recording counter and "
                        "process death; ASan/valgrind were not wired in"]
    if rep.coverage["evaluations"] < 300:
        rep.inconclusive_note("fewer than 300 observations", floor=True)
    return rep.finish()


def replay(path):
    print("re-run ./check C20 (the experiment is deterministic per seed)")
    return 0
