"""Shared orchestration for the /verif checks: build the harness from /repo's working tree,
shard cases over harness processes, collect results, write evidence, match known findings."""
import hashlib
import json
import os
import random
import shutil
import subprocess
import sys
import time

sys.set_int_max_str_digits(0)
VERIF = os.path.dirname(os.path.dirname(os.path.abspath(__file__)))
REPO = os.environ.get("VERIF_REPO", "/repo")
BUILD = os.path.join(VERIF, ".build")
SCRATCH = os.path.join(VERIF, ".scratch")
NCPU = int(os.environ.get("VERIF_JOBS", "16"))

OFFLINE_ENV = {"CARGO_NET_OFFLINE": "true"}

_built = {}


def log(*a):
    print(*a, file=sys.stderr, flush=True)


def seed():
    try:
        return int(os.environ.get("VERIF_SEED", "1"))
    except ValueError:
        return 1


def tier(argv_tier=None):
    t = argv_tier or os.environ.get("VERIF_TIER", "quick")
    return t if t in ("quick", "thorough") else "quick"


def _sync_lock(crate_dir):
    src = os.path.join(REPO, "Cargo.lock")
    dst = os.path.join(crate_dir, "Cargo.lock")
    try:
        a = open(src, "rb").read()
    except OSError:
        return
    try:
        b = open(dst, "rb").read()
    except OSError:
        b = None
    # the harness lock is a superset-compatible copy of the repository's; refresh only if the
    # repository's changed since we copied it
    stamp = os.path.join(crate_dir, ".lock.sha")
    h = hashlib.sha256(a).hexdigest()
    old = open(stamp).read().strip() if os.path.exists(stamp) else None
    if b is None or old != h:
        with open(dst, "wb") as f:
            f.write(a)
        with open(stamp, "w") as f:
            f.write(h)


class BuildError(Exception):
    pass


def build(variant="plain"):
    """Build vharness from /repo's current working tree. Returns the binary path."""
    if variant in _built:
        return _built[variant]
    crate = os.path.join(VERIF, "harness")
    _sync_lock(crate)
    target = os.path.join(BUILD, variant)
    env = dict(os.environ)
    env.update(OFFLINE_ENV)
    env["CARGO_TARGET_DIR"] = target
    cmd = ["cargo"]
    bin_rel = "release/vharness"
    if variant == "plain":
        cmd += ["build", "--release", "--offline"]
    elif variant == "dbg":
        cmd += ["build", "--profile", "dbg", "--offline"]
        bin_rel = "dbg/vharness"
    elif variant == "asan":
        cmd = ["cargo", "+nightly", "build", "--release", "--offline", "--target", "x86_64-unknown-linux-gnu"]
        env["RUSTFLAGS"] = "-Zsanitizer=address -Cforce-frame-pointers=yes"
        bin_rel = "x86_64-unknown-linux-gnu/release/vharness"
    elif variant == "tsan":
        cmd = ["cargo", "+nightly", "build", "--release", "--offline", "-Zbuild-std", "--target",
               "x86_64-unknown-linux-gnu"]
        env["RUSTFLAGS"] = "-Zsanitizer=thread --cfg has_std"
        bin_rel = "x86_64-unknown-linux-gnu/release/vharness"
    else:
        raise ValueError(variant)
    t0 = time.time()
    p = subprocess.run(cmd, cwd=crate, env=env, stdout=subprocess.PIPE, stderr=subprocess.STDOUT, text=True)
    if p.returncode != 0:
        log(p.stdout[-6000:])
        raise BuildError("harness build failed (variant %s)" % variant)
    log("[build %s] %.1fs" % (variant, time.time() - t0))
    path = os.path.join(target, bin_rel)
    _built[variant] = path
    return path


def scratch_dir(tag):
    d = os.path.join(SCRATCH, "%s-%d-%d" % (tag, os.getpid(), int(time.time() * 1000) % 100000))
    os.makedirs(d, exist_ok=True)
    return d


def run_cases(cases, subcmd="run", env=None, shards=None, args=(), variant="plain", tag="run",
              wall_timeout=3600, keep=False):
    """Run `cases` (list of dicts with unique 'id') through `vharness <subcmd>`, sharded.
    Returns (results_by_id, meta)."""
    # VERIF_VARIANT=asan runs the same workload on the AddressSanitizer build of the harness (a report aborts the child:
    # status signal:6, stderr "ERROR: AddressSanitizer: ..."); the address-space cap is lifted (shadow memory)
    variant = os.environ.get("VERIF_VARIANT", variant)
    binp = build(variant)
    if variant == "asan":
        cases = [dict(c, mem_mb=0, timeout_ms=int(c.get("timeout_ms", 30000)) * 4) for c in cases]
        env = dict(env or {})
        env.setdefault("ASAN_OPTIONS", "detect_leaks=0:abort_on_error=1:halt_on_error=1:detect_stack_use_after_return=0:allocator_may_return_null=1")
    shards = shards or NCPU
    shards = max(1, min(shards, len(cases)))
    d = scratch_dir(tag)
    procs = []
    e = dict(os.environ)
    # never inherit optimisation switches from the caller's environment
    for k in ("STEEL_JIT", "STEEL_INLINE", "STEEL_INLINE_RECURSIVE", "STEEL_CLOSURE_LIFTING",
              "STEEL_MODULE_INLINE"):
        e.pop(k, None)
    if env:
        e.update(env)
    for k in range(shards):
        inp = os.path.join(d, "in_%d.jsonl" % k)
        outp = os.path.join(d, "out_%d.jsonl" % k)
        with open(inp, "w") as f:
            for c in cases[k::shards]:
                f.write(json.dumps(c) + "\n")
        errp = open(os.path.join(d, "err_%d.txt" % k), "w")
        p = subprocess.Popen([binp, subcmd, "--in", inp, "--out", outp] + list(args), env=e,
                             stdout=errp, stderr=errp, cwd=d)
        procs.append((p, outp, errp))
    results = {}
    meta = {"harness_errors": [], "shards": shards}
    deadline = time.time() + wall_timeout
    for p, outp, errp in procs:
        try:
            p.wait(timeout=max(1, deadline - time.time()))
        except subprocess.TimeoutExpired:
            p.kill()
            meta["harness_errors"].append("shard timed out")
        errp.close()
        if p.returncode not in (0, None):
            meta["harness_errors"].append("shard exit %s" % p.returncode)
        if os.path.exists(outp):
            with open(outp) as f:
                for line in f:
                    try:
                        r = json.loads(line)
                    except ValueError:
                        continue
                    if "id" in r:
                        results[r["id"]] = r
                    elif "harness_error" in r:
                        meta["harness_errors"].append(r["harness_error"])
                    elif r.get("harness") == "opcov":
                        oc = meta.setdefault("opcov", {"names": r.get("names") or [], "interpreted": set(), "native": set()})
                        for tier_ in ("interpreted", "native"):
                            for nm, bit in zip(r.get("names") or [], r.get(tier_) or ""):
                                if bit == "1":
                                    oc[tier_].add(nm)
                    elif "harness" in r:
                        meta.setdefault("headers", []).append(r)
    if not keep:
        shutil.rmtree(d, ignore_errors=True)
    _note_opcov(meta.get("opcov"))
    return results, meta


# H-cov: union over every harness run of this process of the opcodes the cases drove; Reporter.finish() puts it
# into the evidence file (what the workload reached, and which opcodes it never reached)
OPCOV = {"names": [], "interpreted": set(), "native": set()}


def _note_opcov(oc):
    if not oc:
        return
    if oc["names"]:
        OPCOV["names"] = oc["names"]
    OPCOV["interpreted"] |= oc["interpreted"]
    OPCOV["native"] |= oc["native"]


# ------------------------------------------------------------------------------------------------
# known findings

def load_findings():
    p = os.path.join(VERIF, "known_findings.json")
    try:
        return json.load(open(p))
    except (OSError, ValueError):
        return []


class Reporter:
    """Collects violations, matches them against known findings, prints the verdict lines,
    writes the evidence file."""

    def __init__(self, prop, tier_, level="exploration"):
        self.prop = prop
        self.tier = tier_
        self.seed = seed()
        self.level = level
        self.t0 = time.time()
        self.violations = []   # (signature, description, replay dict)
        self.known_hits = {}   # finding id -> (entry, count)
        self.inconclusive = []
        self.floor_failed = False
        self.findings = [f for f in load_findings() if f.get("property") == prop]
        self.coverage = {"evaluations": 0, "distinct_nontrivial": 0, "rule": "", "samples": []}
        self.assumptions = []
        self._distinct = set()

    # -- coverage helpers
    def count(self, n=1):
        self.coverage["evaluations"] += n

    def nontrivial(self, key):
        h = hashlib.sha1(repr(key).encode()).hexdigest()
        self._distinct.add(h)

    def sample(self, s, cap=6):
        if len(self.coverage["samples"]) < cap:
            self.coverage["samples"].append(s)

    def note(self, k, v):
        self.coverage[k] = v

    def add(self, k, n=1):
        self.coverage[k] = self.coverage.get(k, 0) + n

    def inconclusive_note(self, msg, floor=False):
        """A case that could not be judged.  floor=True: the run as a whole observed too little."""
        self.inconclusive.append(msg)
        if floor:
            self.floor_failed = True

    # -- violations
    def violation(self, signature, description, replay):
        """signature: stable string identifying the specific failing thing."""
        for f in self.findings:
            if f.get("status") == "known" and _sig_match(f.get("signature"), signature):
                e = self.known_hits.setdefault(f["id"], [f, 0, description])
                e[1] += 1
                return False
        self.violations.append((signature, description, replay))
        return True

    def finish(self):
        wall = time.time() - self.t0
        self.coverage["distinct_nontrivial"] = len(self._distinct)
        rc = 0
        for fid, (f, n, desc) in sorted(self.known_hits.items()):
            print("KNOWN-FINDING: property=%s %s [%s, seen %d time(s) in this run]" % (
                self.prop, f.get("what_fails", ""), fid, n))
        os.makedirs(os.path.join(VERIF, "replays"), exist_ok=True)
        by_sig = {}
        for sig, desc, replay in self.violations:
            by_sig.setdefault(sig, []).append((desc, replay))
        for i, (sig, items) in enumerate(sorted(by_sig.items())):
            rc = 1
            if i >= 40:
                print("... %d further distinct violation signatures not listed" % (len(by_sig) - 40))
                break
            desc, replay = items[0]
            path = os.path.join(VERIF, "replays", "%s-%s.json" % (
                self.prop, hashlib.sha1(sig.encode()).hexdigest()[:10]))
            with open(path, "w") as f:
                json.dump({"property": self.prop, "signature": sig, "description": desc, "occurrences": len(items),
                           "seed": self.seed, "tier": self.tier, "replay": replay,
                           "more": [r for _, r in items[1:4]]}, f, indent=1)
            print("VIOLATION property=%s replay=%s" % (self.prop, path))
            print("  signature: %s  (%d occurrence(s))" % (sig, len(items)))
            print("  %s" % desc[:600])
        for m in self.inconclusive[:30]:
            print("INCONCLUSIVE%s property=%s %s" % ("" if self.floor_failed else "-CASE", self.prop, m))
        self.coverage["known_findings_seen"] = {k: v[1] for k, v in self.known_hits.items()}
        if self.inconclusive:
            self.coverage["inconclusive"] = self.inconclusive
        if OPCOV["names"]:
            # H-cov: what the engine runs of this check reached (ephemeral opcodes are never dispatched)
            names = OPCOV["names"]
            self.coverage["opcodes"] = {
                "defined": len(names),
                "interpreted": len(OPCOV["interpreted"]),
                "translated_to_native_code": len(OPCOV["native"]),
                "never_interpreted": [n for n in names if n not in OPCOV["interpreted"]],
                "interpreted_but_never_translated": [n for n in names if n in OPCOV["interpreted"] and n not in OPCOV["native"]],
            }
        ev = {
            "property_id": self.prop,
            "tier": self.tier,
            "seed": self.seed,
            "level": self.level,
            "coverage": self.coverage,
            "assumptions": self.assumptions,
            "wall_s": round(wall, 2),
            "violations": len(self.violations),
        }
        os.makedirs(os.path.join(VERIF, "evidence"), exist_ok=True)
        with open(os.path.join(VERIF, "evidence", "%s.json" % self.prop), "w") as f:
            json.dump(ev, f, indent=1, sort_keys=True)
        verdict = "VIOLATED" if rc else ("INCONCLUSIVE" if self.floor_failed else "HELD")
        self.coverage["inconclusive_cases"] = len(self.inconclusive)
        print("%s %s tier=%s seed=%d evaluations=%d distinct_nontrivial=%d known=%d wall=%.1fs" % (
            self.prop, verdict, self.tier, self.seed, self.coverage["evaluations"],
            self.coverage["distinct_nontrivial"], len(self.known_hits), wall))
        return rc


def _sig_match(pattern, signature):
    """A known-finding signature is either an exact string or {"prefix": ...} / {"regex": ...}."""
    if pattern is None:
        return False
    if isinstance(pattern, str):
        return pattern == signature
    if isinstance(pattern, dict):
        if "exact" in pattern:
            return pattern["exact"] == signature
        if "prefix" in pattern:
            return signature.startswith(pattern["prefix"])
        if "regex" in pattern:
            import re
            return re.fullmatch(pattern["regex"], signature) is not None
    return False


def rng(*salt):
    return random.Random("%d|%s" % (seed(), "|".join(str(s) for s in salt)))


# ------------------------------------------------------------------------------------------------
# resilient unit runner

def run_units(units, env=None, per=100, tag="units", prelude=None, timeout_ms=30000, case_opts=None,
              variant="plain", engine=None, max_rounds=14):
    """Evaluate each unit (a source text, or a list of source texts that must run back to back on the same
    engine) as top-level evaluations; the units of a batch share an engine.  After a panic, a process
    death or a timeout the remaining units of the batch are re-run in a new batch, so one bad unit
    costs one unit.  Returns outcomes aligned with `units` (for a group: the outcome of its last text,
    or of the first text that failed):
      {"ok":True,"vals":[..],"out":str} | {"ok":False,"kind":..,"err":..,"panic":(loc,msg)?}
      | {"died": "signal:11"|"timeout"|.., "stderr": str}"""
    groups_src = [u if isinstance(u, (list, tuple)) else [u] for u in units]
    out = [None] * len(units)
    pending = list(range(len(units)))
    rounds = 0
    args = []
    if engine:
        args += ["--engine", engine]
    while pending and rounds < max_rounds:
        rounds += 1
        cases = []
        groups = {}
        for b in range(0, len(pending), per):
            idxs = pending[b:b + per]
            cid = "b%d_%d" % (rounds, b)
            groups[cid] = idxs
            flat = []
            for k in idxs:
                flat.extend(groups_src[k])
            c = {"id": cid, "timeout_ms": timeout_ms, "units": ([prelude] if prelude else []) + flat}
            if case_opts:
                c.update(case_opts)
            cases.append(c)
        results, meta = run_cases(cases, env=env, tag=tag, args=args, variant=variant)
        nxt = []
        off = 1 if prelude else 0
        for cid, idxs in groups.items():
            res = results.get(cid)
            us = (res["units"] if res else [])[off:]
            stop = False
            pos = 0
            for k in idxs:
                n = len(groups_src[k])
                if stop:
                    nxt.append(k)
                    continue
                mine = us[pos:pos + n]
                if len(mine) < n and not any((not u.get("ok")) for u in mine):
                    # the batch ended inside (or before) this group
                    if res is not None and res["status"] != "ok" and pos + len(mine) == len(us):
                        out[k] = {"died": res["status"], "stderr": res.get("stderr_tail", ""),
                                  "out": res.get("out_tail", "")}
                        stop = True
                    else:
                        nxt.append(k)
                    pos += n
                    continue
                pos += n
                chosen = None
                for u in mine:
                    chosen = u
                    if not u.get("ok"):
                        break
                u = chosen
                if u.get("ok"):
                    out[k] = {"ok": True, "vals": u.get("vals", []), "out": u.get("out", ""),
                              "emits": u.get("emits", [])}
                else:
                    o = {"ok": False, "kind": u.get("kind"), "err": u.get("err", ""), "out": u.get("out", ""),
                         "emits": u.get("emits", [])}
                    if u.get("panics"):
                        o["panic"] = (u["panics"][0][0], u["panics"][0][1])
                        stop = True  # the engine is not trusted after a panic
                    out[k] = o
                    if len(mine) < n:
                        # an error inside a group: the harness went on with the following texts, which
                        # are out of step now only if stop_on_error was set (it is not); keep positions
                        pass
        if len(nxt) == len(pending) and per == 1:
            break
        pending = nxt
        per = max(1, per // 2)
    return out


def panic_sig(panic):
    """Stable signature of a panic: file (no line number) + message with numbers/quoted parts erased."""
    import re
    loc, msg = panic
    f = loc.rsplit(":", 1)[0]
    m = re.sub(r"\d+", "N", msg)
    m = re.sub(r"`[^`]*`|\"[^\"]*\"|'[^']*'", "_", m)
    return "%s: %s" % (f, m[:70])


def retry_alone(case, env=None, subcmd="run", tag="retry"):
    """Re-run one case alone (nothing else running in this check) with a doubled deadline.  Used for
    time-outs and process deaths seen in a loaded batch: only a reproduced one is judged."""
    c = dict(case)
    c["timeout_ms"] = 2 * int(c.get("timeout_ms", 30000))
    res, _ = run_cases([c], env=env, subcmd=subcmd, shards=1, tag=tag)
    return res.get(c["id"])
