"""Seeded, type-directed generator of terminating core-language programs (AST for vlib.schemeref).

Aimed at the lowering passes rather than at uniform coverage: shadowing chains, internal defines,
mutation of captured variables at several depths, closures escaping through containers, rest /
optional arguments and apply, the same sub-expression in tail / argument / let-bound / condition /
discarded position, foldable constant code, calls of locally rebound builtin names, dead code that
would raise, errors raised at depth after output, handlers."""
from fractions import Fraction

from .schemeref import Sym, Char, DOT, VecLit

S = Sym

TYPES = ["int", "int", "int", "bool", "list", "str", "sym", "vec", "box", "fn1", "hash"]

BUILTIN_SHADOW = ["list", "car", "length", "add1", "max", "first", "abs", "append", "not", "min"]


class Scope:
    def __init__(self, parent=None):
        self.vars = []          # (name, type, kind) kind in {"local","global","param"}
        self.parent = parent

    def all(self):
        s, out = self, []
        while s:
            out.extend(s.vars)
            s = s.parent
        return out

    def of_type(self, t):
        seen = set()
        out = []
        for n, ty, k in self.all():
            if n in seen:
                continue
            seen.add(n)
            if ty == t:
                out.append(n)
        return out

    def add(self, name, ty, kind="local"):
        self.vars.append((name, ty, kind))


class Gen:
    def __init__(self, r, profile=None):
        self.r = r
        self.n = 0
        self.profile = profile or {}
        self.funcs = {}        # global function name -> (param types, ret type, has_rest)
        self.size = 0
        self.features = set()
        self.emit_id = 0

    def fresh(self, base="v"):
        self.n += 1
        # few distinct spellings on purpose: shadowing happens by itself
        if self.r.random() < 0.5:
            return S("%s%d" % (base, self.r.randint(0, 4)))
        return S("%s%d" % (base, self.n))

    def p(self, x):
        return self.r.random() < x

    # ------------------------------------------------------------------------------------ literals
    def lit(self, t):
        r = self.r
        if t == "int":
            return r.choice([0, 1, 2, 3, 5, 7, 10, -1, -4, 100, 12345, r.randint(-50, 50)])
        if t == "bool":
            return r.choice([True, False])
        if t == "str":
            return r.choice(["", "a", "hello", "x y", "Q"])
        if t == "sym":
            return [S("quote"), S(r.choice(["a", "b", "foo", "k"]))]
        if t == "list":
            n = r.choice([0, 1, 2, 3, 4])
            if self.p(0.5):
                # (the literal '() was not generated while C01-F01 was open; repaired in /repo 5f360a25)
                return [S("quote"), [r.randint(-9, 9) for _ in range(n)]]
            return [S("list")] + [r.randint(-9, 9) for _ in range(n)]
        if t == "vec":
            return [S("vector")] + [r.randint(0, 9) for _ in range(r.randint(1, 4))]
        if t == "box":
            return [S("box"), r.randint(0, 9)]
        if t == "hash":
            return [S("hash")] + sum([[[S("quote"), S(k)], r.randint(0, 9)] for k in r.sample(["a", "b", "c"], r.randint(0, 3))], [])
        if t == "fn1":
            x = S("x")
            return [S("lambda"), [x], r.choice([[S("+"), x, r.randint(1, 5)], [S("*"), x, 2], x, [S("-"), x]])]
        raise ValueError(t)

    # ------------------------------------------------------------------------------------ expressions
    def test(self, sc, d):
        """A condition.  Only primitive applications / variables / literals: a let or lambda application
        with an unused constant binding in test position is known finding C01-F03."""
        vs = sc.of_type("bool")
        if vs and self.p(0.2):
            return self.r.choice(vs)
        saved = self.expr
        try:
            self.expr = lambda t, sc, d: self.leaf(t, sc)
            return self.prim("bool", sc, 1)
        finally:
            self.expr = saved

    def leaf(self, t, sc):
        vs = sc.of_type(t)
        if vs and self.p(0.6):
            return self.r.choice(vs)
        if t == "fn1":
            return self.lit("fn1")
        return self.lit(t)

    def expr(self, t, sc, d):
        """An expression of type t (never intentionally failing)."""
        self.size += 1
        r = self.r
        if d <= 0 or self.size > 160:
            vs = sc.of_type(t)
            if vs and self.p(0.6):
                return r.choice(vs)
            return self.lit(t)
        c = r.random()
        vs = sc.of_type(t)
        if c < 0.16 and vs:
            return r.choice(vs)
        if c < 0.24:
            return self.lit(t)
        if c < 0.34:
            self.features.add("if")
            return [S("if"), self.test(sc, d - 1), self.expr(t, sc, d - 1), self.expr(t, sc, d - 1)]
        if c < 0.46:
            return self.let_form(t, sc, d)
        if c < 0.52:
            return self.begin_effect(t, sc, d)
        if c < 0.60:
            call = self.call_known(t, sc, d)
            if call is not None:
                return call
        if c < 0.65:
            return self.lambda_app(t, sc, d)
        if c < 0.69:
            return self.cond_form(t, sc, d)
        if c < 0.72 and self.p(0.5):
            return self.handler_wrap(t, sc, d)
        if c < 0.75:
            return self.dead_code(t, sc, d)
        return self.prim(t, sc, d)

    def prim(self, t, sc, d):
        r = self.r
        e = lambda ty: self.expr(ty, sc, d - 1)
        if t in ("int", "bool", "list", "str") and self.p(0.22):
            x = self.extra_prim(t, sc, d)
            if x is not None:
                return x
        if t == "int":
            k = r.randrange(16)
            if k < 4:
                return [S(r.choice(["+", "-", "*"]))] + [e("int") for _ in range(r.choice([2, 2, 2, 3, 1]))]
            if k == 4:
                return [S(r.choice(["quotient", "remainder", "modulo"])), e("int"), r.choice([1, 2, 3, 7, -2])]
            if k == 5:
                return [S(r.choice(["abs", "add1", "sub1", "square"])), e("int")]
            if k == 6:
                return [S(r.choice(["min", "max"])), e("int"), e("int")]
            if k == 7:
                return [S("length"), e("list")]
            if k == 8:
                return [S("vector-length"), e("vec")]
            if k == 9:
                return [S("unbox"), e("box")]
            if k == 10:
                return [S("string-length"), e("str")]
            if k == 11:
                self.features.add("foldl")
                return [S(r.choice(["foldl", "foldr"])), S("+") if self.p(0.5) else [S("lambda"), [S("a"), S("b")], [S("+"), S("a"), S("b")]], e("int"), e("list")]
            if k == 12:
                return [S("apply"), S(r.choice(["+", "*", "max"])), 1, e("list")] if self.p(0.5) else [S("apply"), S("+"), e("list")]
            if k == 13:
                return [S("hash-length"), e("hash")]
            if k == 14:
                self.features.add("callcc")
                kk = self.fresh("k")
                sc2 = Scope(sc)
                body = self.expr("int", sc2, d - 1)
                return [S("call/cc"), [S("lambda"), [kk], [S("+"), 1, [S("if"), self.test(sc, d - 1), [kk, body], body]]]]
            return [S("vector-ref"), [S("vector"), e("int"), e("int")], r.choice([0, 1])]
        if t == "bool":
            k = r.randrange(9)
            if k < 3:
                return [S(r.choice(["<", ">", "<=", ">=", "="])), e("int"), e("int")]
            if k == 3:
                return [S("not"), e("bool")]
            if k == 4:
                # (`or` with two or more operands expands to a let in test position: known finding C01-F03;
                #  it is generated in value position only, see value_or)
                return [S("and")] + [e("bool") for _ in range(r.choice([0, 1, 2, 3]))]
            if k == 5:
                return [S(r.choice(["null?", "pair?", "list?"])), e("list")]
            if k == 6:
                return [S(r.choice(["even?", "odd?", "zero?", "positive?", "negative?"])), e("int")]
            if k == 7:
                return [S("equal?"), e("list"), e("list")]
            return [S("string=?"), e("str"), e("str")]
        if t == "list":
            k = r.randrange(11)
            if k < 2:
                return [S("cons"), e("int"), e("list")]
            if k == 2:
                return [S("list")] + [e("int") for _ in range(r.choice([0, 1, 2, 3]))]
            if k == 3:
                return [S("append"), e("list"), e("list")]
            if k == 4:
                return [S("reverse"), e("list")]
            if k == 5:
                self.features.add("map")
                return [S("map"), self.expr("fn1", sc, d - 1), e("list")]
            if k == 6:
                return [S("filter"), S(r.choice(["even?", "odd?", "positive?"])), e("list")]
            if k == 7:
                return [S("vector->list"), e("vec")]
            if k == 8:
                return [S("range"), r.randint(0, 3), r.randint(3, 7)]
            if k == 9:
                # rest-argument procedure
                self.features.add("rest-args")
                return [S("apply"), [S("lambda"), S("args"), S("args")], [S("list")] + [e("int") for _ in range(r.choice([0, 1, 3]))]]
            return [S("map"), [S("lambda"), [S("a"), S("b")], [S("+"), S("a"), S("b")]], [S("list"), 1, 2], [S("list"), e("int"), e("int")]]
        if t == "str":
            k = r.randrange(4)
            if k == 0:
                return [S("string-append"), e("str"), e("str")]
            if k == 1:
                return [S("number->string"), e("int")]
            if k == 2:
                return [S("symbol->string"), e("sym")]
            return [S("if"), self.test(sc, d - 1), e("str"), e("str")]
        if t == "sym":
            return [S("if"), self.test(sc, d - 1), self.lit("sym"), self.lit("sym")] if self.p(0.7) else [S("string->symbol"), e("str")]
        if t == "vec":
            if self.p(0.5):
                return [S("vector")] + [e("int") for _ in range(r.choice([1, 2, 3]))]
            return [S("vector"), e("int")]
        if t == "box":
            return [S("box"), e("int")]
        if t == "hash":
            return [S("hash-insert"), e("hash"), self.lit("sym"), e("int")]
        if t == "fn1":
            return self.make_fn1(sc, d)
        raise ValueError(t)

    def extra_prim(self, t, sc, d):
        """Second family of primitive applications and derived forms: pairs, association lists, list accessors, guarded
        hash lookups, vector literals, `do` loops, `when` / `unless`, string and character operations, hash sets."""
        r = self.r
        e = lambda ty: self.expr(ty, sc, d - 1)
        self.features.add("extra-prims")
        if t == "int":
            k = r.randrange(13)
            if k == 0:      # pairs
                return [S(r.choice(["car", "cdr"])), [S("cons"), e("int"), e("int")]]
            if k == 1:      # guarded hash lookup
                key = self.lit("sym")
                h = self.fresh("h")
                return [S("let"), [[h, e("hash")]], [S("if"), [S("hash-contains?"), h, key], [S("hash-ref"), h, key], r.randint(0, 9)]]
            if k == 2:      # vector literal (its own instruction)
                items = [r.randint(0, 9) for _ in range(r.randint(1, 4))]
                return [S("vector-ref"), VecLit(items), r.randrange(len(items))]
            if k == 3:      # do loop with an accumulator
                self.features.add("do-loop")
                i, acc = self.fresh("i"), self.fresh("acc")
                sc2 = Scope(sc)
                sc2.add(i, "int", "param")
                sc2.add(acc, "int", "param")
                return [S("do"), [[i, 0, [S("+"), i, 1]], [acc, e("int"), self.expr("int", sc2, d - 2)]], [[S(">="), i, r.randint(0, 4)], acc]]
            if k == 4:      # list accessors on a list that is long enough
                l = self.fresh("l")
                return [S("let"), [[l, [S("append"), [S("list"), e("int"), e("int"), e("int")], e("list")]]],
                        [S(r.choice(["first", "second", "third", "cadr", "caddr", "last"])), l]]
            if k == 5:
                l = self.fresh("l")
                return [S("let"), [[l, [S("cons"), e("int"), e("list")]]], [S("list-ref"), l, [S("-"), [S("length"), l], 1]]]
            if k == 6:      # association list
                return [S("cdr"), [S("assoc"), r.choice([1, 2]), [S("list"), [S("cons"), 1, e("int")], [S("cons"), 2, e("int")]]]]
            if k == 7:
                return [S("char->integer"), r.choice([Char(97), Char(65), Char(48), Char(955)])]
            if k == 8:
                return [S("length"), [S("string->list"), e("str")]]
            if k == 9:      # when / unless as the last effect of a begin: value is used only for its effect
                v = self.fresh("w")
                sc2 = Scope(sc)
                sc2.add(v, "int")
                return [S("let"), [[v, e("int")]], [S(r.choice(["when", "unless"])), self.test(sc2, d - 1), [S("set!"), v, [S("+"), v, 1]]], v]
            if k == 10:
                return [S("hashset-length"), [S("hashset-insert"), [S("hashset"), e("int"), e("int")], e("int")]]
            if k == 11:
                # or / and in value position whose operands have effects: each operand is evaluated at most once, left to
                # right, and evaluation stops at the first true (false) one
                self.features.add("effectful-or-and")
                cnt, res = self.fresh("cnt"), self.fresh("r")
                sc2 = Scope(sc)
                sc2.add(cnt, "int")
                bump = lambda by, val: [S("begin"), [S("set!"), cnt, [S("+"), cnt, by]], val]
                form = S(r.choice(["or", "or", "and"]))
                ops = [bump(1, [S("if"), self.test(sc, d - 1), cnt, False]), bump(10, [S("if"), self.test(sc, d - 1), cnt, False])]
                if self.p(0.5):
                    ops.append(bump(100, cnt))
                return [S("let"), [[cnt, r.randint(0, 5)]],
                        [S("let"), [[res, [form] + ops]], [S("+"), [S("*"), 1000, [S("if"), res, res, -1]], cnt]]]
            return [S("length"), [S("list-tail"), [S("cons"), e("int"), e("list")], 1]]
        if t == "bool":
            k = r.randrange(7)
            if k == 0:
                return [S("if"), [S("member"), e("int"), e("list")], True, False]
            if k == 1:
                return [S("hash-contains?"), e("hash"), self.lit("sym")]
            if k == 2:
                return [S(r.choice(["eq?", "equal?"])), self.lit("sym"), e("sym")]
            if k == 3:
                return [S("string<?"), e("str"), e("str")]
            if k == 4:
                return [S("hashset-contains?"), [S("hashset"), e("int"), e("int")], e("int")]
            if k == 5:
                return [S(r.choice(["number?", "string?", "symbol?", "vector?", "procedure?", "boolean?", "integer?"])),
                        e(r.choice(["int", "str", "sym", "vec", "list", "bool"]))]
            return [S("empty?"), e("list")]
        if t == "list":
            k = r.randrange(6)
            if k == 0:      # improper pair turned back into a list
                p_ = self.fresh("p")
                return [S("let"), [[p_, [S("cons"), e("int"), e("int")]]], [S("list"), [S("car"), p_], [S("cdr"), p_]]]
            if k == 1:
                return [S("rest"), [S("cons"), e("int"), e("list")]]
            if k == 2:
                return [S("cddr"), [S("append"), [S("list"), e("int"), e("int")], e("list")]]
            if k == 3:      # do loop that builds a list
                self.features.add("do-loop")
                i, acc = self.fresh("i"), self.fresh("acc")
                return [S("do"), [[i, 0, [S("+"), i, 1]], [acc, [S("quote"), []], [S("cons"), i, acc]]], [[S(">="), i, r.randint(0, 4)], acc]]
            if k == 4:
                return [S("list-tail"), [S("append"), [S("list"), e("int")], e("list")], 1]
            return [S("vector->list"), VecLit([r.randint(0, 9) for _ in range(r.randint(0, 3))])]
        if t == "str":
            k = r.randrange(3)
            if k == 0:
                s_ = self.fresh("s")
                return [S("let"), [[s_, [S("string-append"), "ab", e("str")]]], [S("substring"), s_, 1, [S("string-length"), s_]]]
            if k == 1:
                return [S("string-upcase"), e("str")]
            return [S("symbol->string"), e("sym")]
        return None

    def make_fn1(self, sc, d):
        """A one-argument int->int procedure, often closing over (and mutating) outer variables."""
        x = self.fresh("x")
        sc2 = Scope(sc)
        sc2.add(x, "int", "param")
        body = [self.expr("int", sc2, d - 1)]
        ints = [n for n, ty, k in sc.all() if ty == "int" and k != "global-const"]
        if ints and self.p(0.4):
            v = self.r.choice(ints)
            self.features.add("captured-set!")
            body = [[S("set!"), v, [S("+"), v, 1]]] + body
        if self.p(0.15):
            # internal define after an expression
            y = self.fresh("y")
            self.features.add("internal-define")
            sc2.add(y, "int")
            body = [[S("define"), y, [S("*"), x, 2]]] + [self.expr("int", sc2, d - 1)]
        return [S("lambda"), [x]] + body

    def let_form(self, t, sc, d):
        r = self.r
        kind = r.choice(["let", "let", "let*", "letrec", "named", "shadow-builtin"])
        if kind == "named":
            self.features.add("named-let")
            i, acc = self.fresh("i"), self.fresh("acc")
            sc2 = Scope(sc)
            sc2.add(i, "int", "param")
            sc2.add(acc, t, "param")
            n = r.randint(0, 4)
            step = self.expr(t, sc2, d - 2)
            return [S("let"), S("loop%d" % r.randint(0, 2)), [[i, 0], [acc, self.expr(t, sc, d - 1)]],
                    [S("if"), [S(">="), i, n], acc, [S("loop%d" % 0), [S("+"), i, 1], step]]] if False else \
                self._named_let(t, sc, d, i, acc, n, step)
        if kind == "shadow-builtin" and t == "int":
            self.features.add("shadow-builtin")
            name = S(r.choice(BUILTIN_SHADOW))
            sc2 = Scope(sc)
            sc2.add(name, "fn1")
            fn = self.lit("fn1")
            return [S("let"), [[name, fn]], [name, self.expr("int", sc, d - 1)]]
        nb = r.choice([1, 1, 2, 3])
        binds = []
        sc2 = Scope(sc)
        used = set()
        for _ in range(nb):
            ty = r.choice(TYPES)
            name = self.fresh()
            while name in used:
                name = self.fresh()   # duplicate names in one binding list are an error in let/letrec
            used.add(name)
            init_scope = sc2 if kind == "let*" else sc
            if kind == "letrec":
                ty = "fn1"
                init = self.make_fn1(sc, d - 1)
            else:
                init = self.expr(ty, init_scope, d - 1)
            binds.append([name, init])
            if kind == "let*":
                sc2.add(name, ty)
        if kind != "let*":
            for (name, _), ty in zip(binds, [None] * len(binds)):
                pass
            # types again (same order)
        sc3 = Scope(sc)
        # recompute types: we stored only in let*; for let/letrec add now
        if kind == "let*":
            sc3 = sc2
        else:
            for b in binds:
                sc3.add(b[0], self._type_of_init(b[1], kind))
        body = [self.expr(t, sc3, d - 1)]
        if self.p(0.2):
            tgt = [n for n, ty, k in sc3.vars if ty == "int"]
            if tgt:
                v = r.choice(tgt)
                self.features.add("set!-local")
                body = [[S("set!"), v, [S("+"), v, self.expr("int", sc3, d - 2)]]] + body
        return [S(kind if kind in ("let", "let*", "letrec") else "let"), binds] + body

    def _named_let(self, t, sc, d, i, acc, n, step):
        name = S("loop%d" % self.r.randint(0, 2))
        return [S("let"), name, [[i, 0], [acc, self.expr(t, sc, d - 1)]],
                [S("if"), [S(">="), i, n], acc, [name, [S("+"), i, 1], step]]]

    def _type_of_init(self, init, kind):
        # the let generator picks a type and then the init; recover it structurally (cheap and local)
        if kind == "letrec":
            return "fn1"
        return self._infer(init)

    def _infer(self, e):
        if isinstance(e, bool):
            return "bool"
        if isinstance(e, int):
            return "int"
        if isinstance(e, str) and not isinstance(e, Sym):
            return "str"
        if isinstance(e, list) and e:
            h = e[0]
            if h == "quote":
                return "sym" if isinstance(e[1], Sym) else "list"
            if h in ("+", "-", "*", "quotient", "remainder", "modulo", "abs", "add1", "sub1", "square", "min", "max", "length",
                     "vector-length", "unbox", "string-length", "foldl", "foldr", "apply", "hash-length", "call/cc", "vector-ref",
                     "car", "cdr", "first", "second", "third", "cadr", "caddr", "last", "list-ref", "char->integer", "hashset-length", "do"):
                return "int"
            if h in ("<", ">", "<=", ">=", "=", "not", "and", "or", "null?", "pair?", "list?", "even?", "odd?", "zero?",
                     "positive?", "negative?", "equal?", "string=?", "hash-contains?", "eq?", "string<?", "hashset-contains?",
                     "number?", "string?", "symbol?", "vector?", "procedure?", "boolean?", "integer?", "box?", "empty?"):
                return "bool"
            if h in ("cons", "list", "append", "reverse", "map", "filter", "vector->list", "range", "rest", "cddr", "list-tail"):
                return "list"
            if h in ("string-append", "number->string", "symbol->string", "substring", "string-upcase"):
                return "str"
            if h in ("vector", "list->vector"):
                return "vec"
            if h == "box":
                return "box"
            if h in ("hash", "hash-insert"):
                return "hash"
            if h == "lambda":
                return "fn1"
            if h == "string->symbol":
                return "sym"
        return "unknown"

    def begin_effect(self, t, sc, d):
        r = self.r
        effs = []
        for _ in range(r.choice([1, 1, 2])):
            k = r.randrange(5)
            ints = [n for n, ty, kk in sc.all() if ty == "int"]
            vecs = sc.of_type("vec")
            boxes = sc.of_type("box")
            if k == 0 and ints:
                self.features.add("set!")
                v = r.choice(ints)
                effs.append([S("set!"), v, self.expr("int", sc, d - 2)])
            elif k == 1 and vecs:
                self.features.add("vector-set!")
                effs.append([S("vector-set!"), r.choice(vecs), 0, self.expr("int", sc, d - 2)])
            elif k == 2 and boxes:
                self.features.add("set-box!")
                effs.append([S("set-box!"), r.choice(boxes), self.expr("int", sc, d - 2)])
            elif k == 3:
                self.features.add("display")
                effs.append([S(r.choice(["display", "write"])), self.expr(r.choice(["int", "list", "str", "sym", "bool"]), sc, d - 2)])
            else:
                effs.append([S("verif-emit"), self.expr(r.choice(["int", "list", "bool"]), sc, d - 2)])
        return [S("begin")] + effs + [self.expr(t, sc, d - 1)]

    def call_known(self, t, sc, d):
        cands = [(n, sig) for n, sig in self.funcs.items() if sig[1] == t]
        if not cands:
            fns = sc.of_type("fn1")
            if t == "int" and fns:
                return [self.r.choice(fns), self.expr("int", sc, d - 1)]
            return None
        name, (ptypes, ret, rest) = self.r.choice(cands)
        args = [self.expr(pt, sc, d - 1) for pt in ptypes]
        if rest:
            args += [self.expr("int", sc, d - 2) for _ in range(self.r.choice([0, 1, 2]))]
        self.features.add("call-global")
        if self.p(0.12 if len(args) < 5 else 0.5):
            self.features.add("apply-global")
            return [S("apply"), name] + args[:-1] + [[S("list")] + args[-1:]] if args else [S("apply"), name, [S("quote"), []]]
        return [name] + args

    def lambda_app(self, t, sc, d):
        x = self.fresh("p")
        ty = self.r.choice(["int", "list", "bool"])
        sc2 = Scope(sc)
        sc2.add(x, ty, "param")
        self.features.add("lambda-application")
        return [[S("lambda"), [x], self.expr(t, sc2, d - 1)], self.expr(ty, sc, d - 1)]

    def cond_form(self, t, sc, d):
        r = self.r
        if self.p(0.3):
            self.features.add("case")
            return [S("case"), self.expr("int", sc, d - 1), [[0, 1], self.expr(t, sc, d - 1)], [[2, 3, 5], self.expr(t, sc, d - 1)],
                    [S("else"), self.expr(t, sc, d - 1)]]
        self.features.add("cond")
        clauses = [[self.test(sc, d - 1), self.expr(t, sc, d - 1)] for _ in range(r.choice([1, 2]))]
        clauses.append([S("else"), self.expr(t, sc, d - 1)])
        return [S("cond")] + clauses

    def handler_wrap(self, t, sc, d):
        self.features.add("with-handler")
        bad = self.failing(sc, d)
        return [S("with-handler"), [S("lambda"), [S("e")], self.expr(t, sc, d - 1)],
                [S("begin"), bad, self.expr(t, sc, d - 1)] if self.p(0.6) else self.expr(t, sc, d - 1)]

    def failing(self, sc, d):
        r = self.r
        self.features.add("raises")
        # run-time failures that the constant folder cannot see (an error that folding finds at compile time
        # rejects the whole unit before any effect - pinned deviation, see DESIGN)
        opaque_nil = [S("vector->list"), [S("vector")]]
        return r.choice([
            [S("car"), opaque_nil],
            [S("vector-ref"), [S("vector"), 1, 2], 5],
            [S("error"), "boom"],
            [S("+"), 1, [S("car"), [S("vector->list"), [S("vector"), "x"]]]],
            [S("hash-ref"), [S("hash")], [S("quote"), S("missing")]],
            [S("quotient"), 1, [S("vector-length"), [S("vector")]]],
            [S("list-ref"), [S("vector->list"), [S("vector"), 1]], 3],
            [[S("vector-ref"), [S("vector"), 1], 0], 2],
            [S("car"), [S("vector-length"), [S("vector")]]],
        ])

    def failing_foldable(self):
        """Failures a constant folder *can* evaluate: only ever placed in dead code."""
        return self.r.choice([[S("car"), [S("list")]], [S("quotient"), 1, 0], [S("+"), 1, "x"], [S("car"), 7],
                              [S("vector-ref"), [S("vector"), 1, 2], 5],
                              [S("error"), "dead"], [S("list-ref"), [S("list"), 1], 3]])

    def dead_code(self, t, sc, d):
        self.features.add("dead-code")
        bad = self.failing_foldable() if self.p(0.6) else self.failing(sc, d)
        good = self.expr(t, sc, d - 1)
        k = self.r.randrange(4)
        if k == 0:
            return [S("if"), False, bad, good]
        if k == 1:
            return [S("if"), [S("<"), 2, 1], bad, good]
        if k == 2:
            return [S("begin"), [S("lambda"), [], bad], good]
        return [S("cond"), [[S("="), 1, 2], bad], [S("else"), good]]

    # ------------------------------------------------------------------------------------ top level
    def special_function(self, sc):
        """Function shapes aimed at specific lowering paths (each returns (define-form, name, probe forms))."""
        r = self.r
        name = S("sf%d" % len(self.funcs))
        k = r.randrange(4)
        a, b, c = r.randint(1, 9), r.randint(1, 9), r.randint(0, 4)
        if k == 3:
            # late parameters (5th and later live in the native tier's spilled registers): read as a leading operand and
            # again, for the last time, inside a later operand; called directly, through a wrapper and through apply
            self.features.add("late-parameter")
            n = r.randint(5, 8)
            pos = r.randint(4, n - 1)
            ps = [S("q%d" % j) for j in range(n)]
            m = ps[pos]
            other = ps[r.choice([j for j in range(n) if j != pos])]
            body = r.choice([
                [S("cons"), m, [S("length"), m]],
                [S("list"), m, [S("cdr"), m], other],
                [S("list"), [S("car"), m], m, [S("length"), m]],
                [S("cons"), other, [S("append"), m, m]],
                [S("list"), m, other, [S("reverse"), m]],
            ])
            form = [S("define"), [name] + ps, body]
            self.funcs[name] = (["list" if j == pos else "int" for j in range(n)], "list", False)
            args = [r.randint(0, 9) for _ in range(n)]
            args[pos] = [S("list"), a, b, c]
            wrapper = S(str(name) + "-via")
            probes = [[S("verif-emit"), [name] + args],
                      [S("define"), [wrapper, S("x")], [name] + [S("x") if j == pos else args[j] for j in range(n)]],
                      [S("verif-emit"), [wrapper, [S("list"), b, c]]],
                      [S("verif-emit"), [S("apply"), name, [S("list")] + args]]]
            return form, name, probes
        if k == 0:
            # internal defines interleaved with assignments: a later internal define must see the assignment
            self.features.add("internal-define-sequence")
            form = [S("define"), [name, S("a")],
                    [S("define"), [S("inner"), S("z")], [S("+"), S("z"), 1]],
                    [S("define"), S("v0"), a],
                    [S("set!"), S("v0"), [S("+"), S("v0"), S("a")]],
                    [S("define"), S("w"), [S("*"), S("v0"), 2]],
                    [S("set!"), S("v0"), [S("inner"), S("v0")]],
                    [S("define"), S("u"), [S("+"), S("v0"), S("w")]],
                    [S("list"), S("v0"), S("w"), S("u")]]
            self.funcs[name] = (["int"], "list", False)
            probes = [[S("verif-emit"), [name, b]], [S("verif-emit"), [name, c]]]
            return form, name, probes
        if k == 1:
            # a rest-parameter procedure that tail-calls itself by name with 0, 1, 2 or 3 rest arguments
            self.features.add("rest-self-tail-call")
            nrest = r.choice([0, 2, 3, 1])
            extra = [r.randint(0, 9) for _ in range(nrest)]
            form = [S("define"), [name, S("i"), S("acc"), DOT, S("more")],
                    [S("if"), [S("<="), S("i"), 0], [S("list"), S("acc"), S("more")],
                     [name, [S("-"), S("i"), 1], [S("+"), S("acc"), [S("length"), S("more")]]] + extra]]
            self.funcs[name] = (["int", "int"], "list", True)
            probes = [[S("verif-emit"), [name, r.randint(0, 4), 0]], [S("verif-emit"), [name, 2, 0, 7, 8]], [S("verif-emit"), [name, 0, 5]]]
            return form, name, probes
        # case-lambda with fixed and rest clauses, called at every arity incl. the minimum of the rest clause
        self.features.add("case-lambda")
        form = [S("define"), name, [S("case-lambda"),
                                    [[S("p")], [S("list"), [S("quote"), S("one")], S("p")]],
                                    [[S("p"), S("q")], [S("list"), [S("quote"), S("two")], S("p"), S("q")]],
                                    [[S("p"), S("q"), S("s"), DOT, S("rest")], [S("list"), [S("quote"), S("many")], S("p"), S("s"), S("rest")]]]]
        self.funcs[name] = (["int"], "list", False)
        probes = [[S("verif-emit"), [name, a]], [S("verif-emit"), [name, a, b]], [S("verif-emit"), [name, a, b, c]],
                  [S("verif-emit"), [name, a, b, c, 4, 5]], [S("verif-emit"), [S("apply"), name, [S("list"), a, b, c]]]]
        return form, name, probes

    def define_function(self, sc, d):
        r = self.r
        name = S("f%d" % len(self.funcs)) if self.p(0.8) else S(r.choice(["helper", "go", "step"]) + str(len(self.funcs)))
        # (functions with >= 5 parameters would reach the native tier's spilled registers - seeded change C02-3 -
        #  but on the unchanged tree they hit a module-mode divergence that was not triaged in time; not generated)
        np_ = r.choice([0, 1, 1, 2, 2, 3])
        ptypes = [r.choice(["int", "int", "list", "bool", "fn1", "vec", "box"]) for _ in range(np_)]
        ret = r.choice(["int", "int", "list", "bool"])
        rest = self.p(0.2)
        sc2 = Scope(sc)
        params = []
        for pt in ptypes:
            p = self.fresh("a")
            while p in params:
                p = self.fresh("a")
            params.append(p)
            sc2.add(p, pt, "param")
        plist = list(params)
        if rest:
            rp = S("more")
            sc2.add(rp, "list", "param")
            plist = plist + [DOT, rp]
            self.features.add("rest-args")
        body = []
        if self.p(0.3):
            self.features.add("internal-define")
            h = self.fresh("inner")
            sc2.add(h, "fn1")
            body.append([S("define"), [h, S("z")], [S("+"), S("z"), self.expr("int", sc2, 1)]])
        kind = r.random()
        if kind < 0.25 and "int" in ptypes:
            # bounded structural recursion on the first int parameter
            self.features.add("recursion")
            n = params[ptypes.index("int")]
            rec_args = [([S("-"), p, 1] if p == n else p) for p in params]
            self.funcs[name] = (ptypes, ret, False)
            rest = False
            plist = list(params)
            rec_call = [name] + rec_args
            if ret == "int":
                comb = r.choice([lambda c: [S("+"), 1, c], lambda c: c, lambda c: [S("*"), 2, c]])(rec_call)
            elif ret == "list":
                comb = r.choice([lambda c: [S("cons"), n, c], lambda c: c])(rec_call)
            else:
                comb = rec_call
            body.append([S("if"), [S("<="), n, 0], self.expr(ret, sc2, d - 1), comb])
            return [S("define"), [name] + plist] + body, name, True
        if np_ >= 5 and ret == "list" and "list" in ptypes[4:] and self.p(0.7):
            late = params[4 + ptypes[4:].index("list")]
            self.features.add("late-parameter-read-twice")
            body.append(self.r.choice([[S("cons"), late, [S("list"), [S("length"), late]]], [S("list"), late, [S("cdr"), [S("cons"), 0, late]]]]))
        else:
            body.append(self.expr(ret, sc2, d))
        self.funcs[name] = (ptypes, ret, rest)
        return [S("define"), [name] + plist] + body, name, False

    def program(self):
        r = self.r
        top = Scope()
        forms = []
        nforms = r.randint(3, 10)
        for i in range(nforms):
            self.size = 0
            c = r.random()
            d = r.choice([1, 2, 2, 3, 3, 4])
            if c < 0.25:
                ty = r.choice(TYPES)
                name = S("g%d" % i)   # unique per unit: redefining a global inside one unit is rejected (BadSyntax)
                forms.append([S("define"), name, self.expr(ty, top, d)])
                top.add(name, ty, "global")
            elif c < 0.31:
                f, name, probes = self.special_function(top)
                forms.append(f)
                forms.extend(probes)
            elif c < 0.50:
                f, name, recursive = self.define_function(top, d)
                forms.append(f)
                if recursive:
                    # call it with a small bound right away
                    ptypes, ret, _ = self.funcs[name]
                    args = [(r.randint(0, 6) if pt == "int" else self.expr(pt, top, 1)) for pt in ptypes]
                    forms.append([S("verif-emit"), [name] + args])
            elif c < 0.60:
                ints = [n for n, ty, k in top.all() if ty == "int"]
                if ints:
                    self.features.add("set!-global")
                    forms.append([S("set!"), r.choice(ints), self.expr("int", top, d)])
                else:
                    forms.append([S("verif-emit"), self.expr("int", top, d)])
            elif c < 0.70:
                forms.append([S(r.choice(["display", "displayln", "write"])), self.expr(r.choice(["int", "list", "str", "sym", "bool"]), top, d)])
            elif c < 0.74:
                self.features.add("live-error")
                forms.append(self.failing(top, d))
            elif c < 0.78 and False:
                # (wrong-arity calls of a function defined in the same unit: known finding C01-F02)
                self.features.add("wrong-arity-call")
                if self.funcs:
                    name = r.choice(list(self.funcs))
                    forms.append([S("verif-emit"), [name] + [1] * (len(self.funcs[name][0]) + (5 if not self.funcs[name][2] else 0) - (0 if self.p(0.5) else 1))])
                else:
                    forms.append([S("verif-emit"), self.expr("int", top, d)])
            else:
                forms.append([S("verif-emit"), self.expr(r.choice(["int", "int", "list", "bool", "str", "vec", "hash", "sym"]), top, d)])
        # observe every global at the end
        for n, ty, k in top.vars:
            if ty in ("int", "list", "bool", "str", "vec", "box", "hash", "sym"):
                forms.append([S("verif-emit"), n])
        return forms
