"""A plain (non-hygienic) syntax-rules expander over the reference machine's AST (vlib.schemeref).

Used by C13 as the *meaning* of a macro program whose identifiers have all been spelled apart
(every template-introduced binder, every user variable and every global has its own spelling): with
no two distinct bindings sharing a spelling, naive substitution and hygienic expansion coincide, so
`reference(expand(apart-program))` is what a hygienic expander must produce for the same program with
colliding spellings.

Supported (R7RS syntax-rules): literals, `_`, ellipsis after any sub-pattern with tail patterns
after it, nested ellipses, improper (dotted) patterns and templates, recursive macros, macros that
expand to define-syntax (macro-defining macros), macros expanding to definitions.  Not supported
(raises Unsupported): vector patterns, (... ...) escapes, custom ellipsis identifiers."""
from . import schemeref as R

Sym = R.Sym
DOT = R.DOT
ELLIPSIS = Sym("...")
UNDERSCORE = Sym("_")


class NoMatch(Exception):
    pass


class ExpandError(Exception):
    """The use matches no rule (a syntax error is the required outcome)."""


class Unsupported(Exception):
    pass


class Macro:
    def __init__(self, name, literals, rules):
        self.name = name
        self.literals = set(literals)
        self.rules = rules          # [(pattern, template)]


def split_dotted(lst):
    """[a, b, DOT, c] -> ([a, b], c) ; [a, b] -> ([a, b], None)"""
    if DOT in lst:
        i = lst.index(DOT)
        if i != len(lst) - 2:
            raise Unsupported("misplaced dot")
        return lst[:i], lst[i + 1]
    return lst, None


def pattern_vars(pat, literals, out=None):
    out = set() if out is None else out
    if isinstance(pat, Sym):
        if pat not in literals and pat != ELLIPSIS and pat != UNDERSCORE:
            out.add(pat)
    elif isinstance(pat, list):
        for p in pat:
            if p is not DOT:
                pattern_vars(p, literals, out)
    return out


def match(pat, form, literals, binds):
    if isinstance(pat, Sym):
        if pat == UNDERSCORE:
            return
        if pat in literals:
            if not (isinstance(form, Sym) and form == pat):
                raise NoMatch()
            return
        binds[pat] = form
        return
    if isinstance(pat, list):
        items, tail = split_dotted(pat)
        if isinstance(form, list):
            fitems, ftail = split_dotted(form)
        else:
            raise NoMatch()
        if ELLIPSIS in items:
            i = items.index(ELLIPSIS)
            if i == 0 or ELLIPSIS in items[i + 1:]:
                raise Unsupported("ellipsis placement")
            before, rep, after = items[:i - 1], items[i - 1], items[i + 1:]
            if len(fitems) < len(before) + len(after):
                raise NoMatch()
            for p, f in zip(before, fitems):
                match(p, f, literals, binds)
            nrep = len(fitems) - len(before) - len(after)
            seq = []
            for f in fitems[len(before):len(before) + nrep]:
                b = {}
                match(rep, f, literals, b)
                seq.append(b)
            for v in pattern_vars(rep, literals):
                binds[v] = Seq([b[v] for b in seq])
            for p, f in zip(after, fitems[len(before) + nrep:]):
                match(p, f, literals, binds)
            if tail is not None:
                match(tail, ftail if ftail is not None else [], literals, binds)
            elif ftail is not None:
                raise NoMatch()
            return
        if tail is None:
            if ftail is not None or len(fitems) != len(items):
                raise NoMatch()
            for p, f in zip(items, fitems):
                match(p, f, literals, binds)
            return
        # dotted pattern without ellipsis
        if len(fitems) < len(items):
            raise NoMatch()
        for p, f in zip(items, fitems):
            match(p, f, literals, binds)
        rest = fitems[len(items):]
        if ftail is not None:
            rest = rest + [DOT, ftail] if rest else ftail
        match(tail, rest, literals, binds)
        return
    # constants
    if type(pat) is not type(form) or pat != form:
        raise NoMatch()


class Seq:
    """The matches of a pattern variable under an ellipsis."""
    def __init__(self, items):
        self.items = items


def instantiate(tmpl, binds):
    if isinstance(tmpl, Sym):
        if tmpl in binds:
            v = binds[tmpl]
            if isinstance(v, Seq):
                raise Unsupported("pattern variable used at the wrong ellipsis depth")
            return v
        return tmpl
    if isinstance(tmpl, list):
        if len(tmpl) >= 2 and tmpl[0] == ELLIPSIS:
            raise Unsupported("(... ...) escape")
        out = []
        i = 0
        while i < len(tmpl):
            t = tmpl[i]
            if t is DOT:
                out.append(DOT)
                i += 1
                continue
            depth = 0
            while i + 1 + depth < len(tmpl) and tmpl[i + 1 + depth] == ELLIPSIS:
                depth += 1
            if depth == 0:
                out.append(instantiate(t, binds))
                i += 1
                continue
            out.extend(expand_ellipsis(t, binds, depth))
            i += 1 + depth
        # normalise (a . (b c)) -> (a b c), (a . ()) -> (a)
        if DOT in out:
            j = out.index(DOT)
            tail = out[j + 1]
            if isinstance(tail, list):
                out = out[:j] + tail
        return out
    return tmpl


def expand_ellipsis(t, binds, depth):
    vars_ = [v for v in pattern_vars(t, set()) if isinstance(binds.get(v), Seq)]
    if not vars_:
        raise Unsupported("ellipsis follows a template without sequence variables")
    lens = {len(binds[v].items) for v in vars_}
    if len(lens) != 1:
        # R7RS: an error; Steel's behaviour is not pinned -> outside the subset
        raise Unsupported("sequence variables of different length under one ellipsis")
    n = lens.pop()
    res = []
    for k in range(n or 0):
        b = dict(binds)
        for v in vars_:
            b[v] = binds[v].items[k]
        if depth > 1:
            res.extend(expand_ellipsis(t, b, depth - 1))
        else:
            res.append(instantiate(t, b))
    return res


BINDING_FORMS = {"lambda", "let", "let*", "letrec", "letrec*", "define", "do", "case-lambda"}


class Expander:
    def __init__(self, limit=20000):
        self.macros = {}
        self.steps = 0
        self.limit = limit

    def define(self, form):
        # (define-syntax name (syntax-rules (lit ...) (pattern template) ...))
        name, spec = form[1], form[2]
        if not (isinstance(spec, list) and spec and spec[0] == "syntax-rules"):
            raise Unsupported("define-syntax without syntax-rules")
        lits = spec[1]
        rules = []
        for r in spec[2:]:
            if len(r) != 2:
                raise Unsupported("rule shape")
            rules.append((r[0], r[1]))
        self.macros[name] = Macro(name, lits, rules)

    def expand_use(self, form):
        m = self.macros[form[0]]
        for pat, tmpl in m.rules:
            b = {}
            try:
                # the macro keyword position is ignored
                match(pat[1:] if isinstance(pat, list) else pat, form[1:], m.literals, b)
            except NoMatch:
                continue
            return instantiate(tmpl, b)
        raise ExpandError("no rule of %s matches %s" % (m.name, R.program_source([form])[:120]))

    def expand(self, x):
        """Expands every macro use in an expression / definition; returns a list of forms (a use at top level may
        expand to (begin defs...) or to a define-syntax)."""
        self.steps += 1
        if self.steps > self.limit:
            raise Unsupported("expansion does not terminate within the step limit")
        if not isinstance(x, list) or not x:
            return x
        h = x[0]
        if isinstance(h, Sym):
            if h == "quote":
                return x
            if h == "define-syntax":
                self.define(x)
                return None
            if h in self.macros:
                return self.expand(self.expand_use(x))
        return [self.expand_sub(e) for e in x]

    def expand_sub(self, e):
        if e is DOT:
            return e
        r = self.expand(e)
        if r is None:
            raise Unsupported("define-syntax in expression position")
        return r

    def program(self, forms):
        out = []
        for f in forms:
            r = self.expand(f)
            if r is None:
                continue
            # a top-level (begin ...) is spliced so that definitions and macro definitions inside take effect
            if isinstance(r, list) and r and r[0] == "begin":
                for g in self.program(r[1:]):
                    out.append(g)
            else:
                out.append(r)
        return out
