#!/usr/bin/env python3
"""Ad-hoc: run units given on the command line through the harness and print the records."""
import json, sys, os
sys.path.insert(0, os.path.dirname(os.path.dirname(os.path.abspath(__file__))))
from vlib import core
env = {}
units = []
for a in sys.argv[1:]:
    if "=" in a and a.split("=")[0].isupper() and not a.startswith("("):
        k, v = a.split("=", 1); env[k] = v
    else:
        units.append(a)
case = {"id": "p", "units": units, "timeout_ms": 30000}
if env.pop("MODULE", None):
    case["as_module"] = True
res, meta = core.run_cases([case], env=env, shards=1)
r = res.get("p")
if r is None:
    print(meta); sys.exit(1)
print("status", r["status"], r.get("stderr_tail", ""))
for u in r["units"]:
    print(json.dumps(u))
if r.get("counters"): print("counters", r["counters"])
if meta.get("opcov"): print("opcodes interpreted:", sorted(meta["opcov"]["interpreted"])); print("opcodes native:", sorted(meta["opcov"]["native"]))
if r.get("events"): print("events", r["events"])
