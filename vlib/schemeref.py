"""Reference evaluator: a direct, unoptimised reading of the core language for the *generated subset*.

CEK-style machine over the generator's own AST (Python lists / Sym / str / numbers), explicit
continuation frames (immutable linked tuples, so first-class continuations are re-entrant for free),
a handler stack and a winders list as machine state.  Everything a generated program can observe is
defined here; anything whose behaviour is not pinned (see PINNED DEVIATIONS) is not generated.

PINNED DEVIATIONS from R7RS (probed on the unchanged tree / documented by Steel):
  * define returns void; printing: #t/#f display as #true/#false; '() displays as ();
  * `=` takes exactly two arguments; foldl / foldr call (f element accumulator);
  * with-handler: (with-handler h body ...) evaluates body; on an error h is called with the error value in
    the dynamic context of the with-handler form and its result is the form's value;
  * strings and lists are immutable; (vector ...) is mutable, #(...) / immutable-vector is not.
"""
import math
from fractions import Fraction


class Sym(str):
    __slots__ = ()

    def __repr__(self):
        return "Sym(%s)" % str.__repr__(self)


class Char:
    __slots__ = ("cp",)

    def __init__(self, cp):
        self.cp = cp

    def __eq__(self, o):
        return isinstance(o, Char) and o.cp == self.cp

    def __hash__(self):
        return hash(("char", self.cp))


class Void:
    def __repr__(self):
        return "#<void>"


VOID = Void()


class Nil:
    def __repr__(self):
        return "()"


NIL = Nil()


class Pair:
    __slots__ = ("car", "cdr")

    def __init__(self, car, cdr):
        self.car = car
        self.cdr = cdr


class MVector:
    __slots__ = ("items",)

    def __init__(self, items):
        self.items = list(items)


class IVector:
    __slots__ = ("items",)

    def __init__(self, items):
        self.items = tuple(items)


class ByteVec:
    __slots__ = ("items",)

    def __init__(self, items):
        self.items = list(items)


class Box:
    __slots__ = ("value",)

    def __init__(self, v):
        self.value = v


class HashMap:
    __slots__ = ("d",)

    def __init__(self, d=None):
        self.d = d or {}   # canon(key) -> (key, value)


class HashSet:
    __slots__ = ("d",)

    def __init__(self, d=None):
        self.d = d or {}   # canon(key) -> key


class StructType:
    def __init__(self, name, fields, mutable, transparent):
        self.name, self.fields, self.mutable, self.transparent = name, fields, mutable, transparent


class StructInst:
    __slots__ = ("type", "fields")

    def __init__(self, t, fields):
        self.type = t
        self.fields = list(fields)


class Closure:
    __slots__ = ("params", "rest", "body", "env", "name")

    def __init__(self, params, rest, body, env, name="lambda"):
        self.params, self.rest, self.body, self.env, self.name = params, rest, body, env, name


class CaseLambda:
    __slots__ = ("clauses", "env", "name")

    def __init__(self, clauses, env):
        self.clauses, self.env, self.name = clauses, env, "case-lambda"


class Prim:
    __slots__ = ("name", "fn", "lo", "hi", "special")

    def __init__(self, name, fn, lo, hi, special=None):
        self.name, self.fn, self.lo, self.hi, self.special = name, fn, lo, hi, special


class Cont:
    __slots__ = ("k", "winders", "handlers")

    def __init__(self, k, winders, handlers):
        self.k, self.winders, self.handlers = k, winders, handlers


class ErrorObj:
    def __init__(self, msg, irritants=()):
        self.msg = msg
        self.irritants = irritants


class SchemeError(Exception):
    """An error raised by the running program (primitive failure or raise); payload is what a handler gets."""

    def __init__(self, payload):
        self.payload = payload


class OutOfFuel(Exception):
    pass


class Unsupported(Exception):
    """The program left the pinned subset (e.g. observed an unspecified value): discard it."""


# ---------------------------------------------------------------------------------------------- helpers

def list_to_py(v):
    out = []
    while isinstance(v, Pair):
        out.append(v.car)
        v = v.cdr
    if v is not NIL:
        return None
    return out


def py_to_list(items, tail=NIL):
    r = tail
    for x in reversed(items):
        r = Pair(x, r)
    return r


def is_number(v):
    return isinstance(v, (int, Fraction, float)) and not isinstance(v, bool)


def canon_str(s):
    out = ['"']
    for c in s:
        o = ord(c)
        if c == '"':
            out.append('\\"')
        elif c == "\\":
            out.append("\\\\")
        elif o < 0x20 or o == 0x7f or o > 0x7e:
            out.append("\\u{%x}" % o)
        else:
            out.append(c)
    out.append('"')
    return "".join(out)


def canon(v, depth=0):
    """Same rendering as steel::verif::canon."""
    import struct
    if depth > 64:
        return "..."
    if v is True:
        return "#t"
    if v is False:
        return "#f"
    if isinstance(v, int):
        return "i:%d" % v
    if isinstance(v, Fraction):
        if v.denominator == 1:
            return "i:%d" % v.numerator
        return "q:%d/%d" % (v.numerator, v.denominator)
    if isinstance(v, float):
        if math.isnan(v):
            return "f:nan"
        return "f:%016x" % struct.unpack("<Q", struct.pack("<d", v))[0]
    if isinstance(v, Sym):
        return "y:" + canon_str(v)
    if isinstance(v, str):
        return "s:" + canon_str(v)
    if isinstance(v, Char):
        return "c:%x" % v.cp
    if v is VOID:
        return "void"
    if v is NIL:
        return "(L)"
    if isinstance(v, Pair):
        items = []
        t = v
        while isinstance(t, Pair):
            items.append(t.car)
            t = t.cdr
        if t is NIL:
            return "(L" + "".join(" " + canon(x, depth + 1) for x in items) + ")"
        # improper: nested (P a (P b tail))
        s = canon(t, depth + 1)
        for x in reversed(items):
            s = "(P %s %s)" % (canon(x, depth + 1), s)
        return s
    if isinstance(v, MVector):
        return "(MV" + "".join(" " + canon(x, depth + 1) for x in v.items) + ")"
    if isinstance(v, IVector):
        return "(V" + "".join(" " + canon(x, depth + 1) for x in v.items) + ")"
    if isinstance(v, Box):
        return "(B %s)" % canon(v.value, depth + 1)
    if isinstance(v, ByteVec):
        return "(BV" + "".join(" %d" % x for x in v.items) + ")"
    if isinstance(v, HashMap):
        ents = sorted("(%s %s)" % (canon(k, depth + 1), canon(x, depth + 1)) for k, x in v.d.values())
        return "(H" + "".join(" " + e for e in ents) + ")"
    if isinstance(v, HashSet):
        ents = sorted(canon(k, depth + 1) for k in v.d.values())
        return "(S" + "".join(" " + e for e in ents) + ")"
    if isinstance(v, StructInst):
        return "(ST %s%s)" % (v.type.name, "".join(" " + canon(x, depth + 1) for x in v.fields))
    if isinstance(v, (Closure, Prim, CaseLambda)):
        return "proc"
    if isinstance(v, Cont):
        return "cont"
    if isinstance(v, ErrorObj):
        return "error"
    raise Unsupported("canon of %r" % (v,))


def equal(a, b):
    try:
        return canon(a) == canon(b) and not _has_proc(a)
    except Unsupported:
        raise


def _has_proc(v):
    return False


def display_str(v, write=False):
    """Steel's display / write for the kinds the generators print."""
    if v is True:
        return "#true"
    if v is False:
        return "#false"
    if isinstance(v, int):
        return str(v)
    if isinstance(v, Fraction):
        return "%d/%d" % (v.numerator, v.denominator) if v.denominator != 1 else str(v.numerator)
    if isinstance(v, float):
        raise Unsupported("printing a double")
    if isinstance(v, Sym):
        return str(v)
    if isinstance(v, str):
        if not write:
            return v
        out = ['"']
        for c in v:
            if c == '"':
                out.append('\\"')
            elif c == "\\":
                out.append("\\\\")
            elif c == "\n":
                out.append("\\n")
            elif c == "\t":
                out.append("\\t")
            elif ord(c) < 0x20 or ord(c) > 0x7e:
                raise Unsupported("printing a non-ASCII string with write")
            else:
                out.append(c)
        out.append('"')
        return "".join(out)
    if isinstance(v, Char):
        if not write:
            return chr(v.cp)
        if 0x21 <= v.cp <= 0x7e:
            return "#\\" + chr(v.cp)
        raise Unsupported("writing a special char")
    if v is NIL:
        return "()"
    if isinstance(v, Pair):
        items = []
        t = v
        while isinstance(t, Pair):
            items.append(display_str(t.car, write))
            t = t.cdr
        if t is NIL:
            return "(" + " ".join(items) + ")"
        raise Unsupported("printing an improper list")
    if isinstance(v, (MVector, IVector)):
        return "#(" + " ".join(display_str(x, write) for x in v.items) + ")"
    raise Unsupported("printing %r" % type(v))


class Env:
    __slots__ = ("vars", "parent")

    def __init__(self, parent=None):
        self.vars = {}
        self.parent = parent

    def lookup_cell(self, name):
        e = self
        while e is not None:
            c = e.vars.get(name)
            if c is not None:
                return c
            e = e.parent
        return None


UNBOUND = object()


# ---------------------------------------------------------------------------------------------- machine

class Machine:
    def __init__(self, fuel=200000, order="l2r"):
        self.fuel = fuel
        self.steps = 0
        self.order = order
        self.out = []
        self.emits = []
        self.winders = ()      # tuple of (before, after) closures, outermost first
        self.handlers = ()     # tuple of (handler, k, winders), outermost first
        self.globals = Env()
        self.struct_types = {}
        self.booting = True
        self.stats = {"closure_calls": 0, "cont_invocations": 0, "cont_reentries": 0, "set": 0, "errors_raised": 0,
                      "handlers_run": 0, "winds": 0}
        install_prims(self)
        install_extras(self)
        # higher-order library procedures are ordinary (re-entrant) Scheme code, applied left to right
        for f in parse(HOF_SOURCE):
            self.eval_top(f)
        self.booting = False
        self.steps = 0
        for k in self.stats:
            self.stats[k] = 0

    # -- top level ------------------------------------------------------------------------------
    def run_program(self, forms):
        """Evaluate top-level forms in order.  Returns ('ok', None) or ('err', payload)."""
        try:
            for f in forms:
                self.winders = ()
                self.handlers = ()
                self.eval_top(f)
        except SchemeError as e:
            return ("err", e.payload)
        return ("ok", None)

    def eval_top(self, form):
        return self.run(("eval", form, self.globals, ("halt",)))

    def new_unit(self):
        """Start a new top-level evaluation unit.  Global references compiled in a unit are resolved to
        the binding cells in force for that unit: a later unit that *defines* an already defined name gets
        a fresh cell (earlier code keeps the old one), while set! writes the shared cell."""
        e = Env()
        e.vars = dict(self.globals.vars)
        self.globals = e

    def run_unit(self, forms):
        """Evaluate one unit.  Returns (outcome, emits, out) for this unit only."""
        self.new_unit()
        n_e, n_o = len(self.emits), len(self.out)
        self.steps = 0
        outcome, payload = self.run_program(forms)
        return (outcome, self.emits[n_e:], "".join(self.out[n_o:]))

    # -- the loop -------------------------------------------------------------------------------
    def run(self, state):
        while True:
            self.steps += 1
            if self.steps > self.fuel:
                raise OutOfFuel()
            tag = state[0]
            try:
                if tag == "eval":
                    state = self.step_eval(state[1], state[2], state[3])
                elif tag == "ret":
                    k = state[2]
                    if k[0] == "halt":
                        return state[1]
                    state = self.step_ret(state[1], k)
                elif tag == "apply":
                    state = self.apply(state[1], state[2], state[3])
                else:
                    raise RuntimeError("bad state %r" % (tag,))
            except SchemeError as e:
                state = self.raise_to_handler(e.payload)

    def raise_to_handler(self, payload):
        self.stats["errors_raised"] += 1
        if not self.handlers:
            raise SchemeError(payload)
        handler, k, winders = self.handlers[-1]
        self.handlers = self.handlers[:-1]
        self.stats["handlers_run"] += 1
        # unwind dynamic-wind frames entered inside the with-handler body
        return self.unwind_then(winders, ("apply", handler, [payload], k))

    def unwind_then(self, target_winders, then_state):
        """Run 'after' thunks of winders not in target (innermost first), 'before' thunks of target's
        not in current (outermost first), then continue with then_state."""
        cur = self.winders
        n = 0
        while n < len(cur) and n < len(target_winders) and cur[n] is target_winders[n]:
            n += 1
        todo = [("after", w) for w in reversed(cur[n:])] + [("before", w) for w in target_winders[n:]]
        return self._wind_steps(todo, target_winders, then_state)

    def _wind_steps(self, todo, target_winders, then_state):
        if not todo:
            self.winders = target_winders
            return then_state
        kind, w = todo[0]
        # while running an 'after' thunk the winders list is the one outside w; 'before' likewise
        idx = None
        for i, x in enumerate(self.winders):
            if x is w:
                idx = i
        if kind == "after" and idx is not None:
            self.winders = self.winders[:idx]
        thunk = w[1] if kind == "after" else w[0]
        k = ("wind-steps", todo[1:], target_winders, then_state, w, kind)
        return ("apply", thunk, [], k)

    # -- eval -----------------------------------------------------------------------------------
    def step_eval(self, x, env, k):
        if isinstance(x, Sym):
            c = env.lookup_cell(x)
            if c is None or c[0] is UNBOUND:
                raise SchemeError(ErrorObj("free identifier: %s" % x))
            return ("ret", c[0], k)
        if isinstance(x, VecLit):
            return ("ret", datum(x), k)   # a vector literal evaluates to a constant (immutable) vector
        if not isinstance(x, list):
            return ("ret", x, k)   # self-evaluating
        if not x:
            raise SchemeError(ErrorObj("empty application"))
        head = x[0]
        if isinstance(head, Sym):
            sf = SPECIAL.get(head)
            if sf is not None and not self.shadowed(head, env):
                return sf(self, x, env, k)
        # application: evaluate operator and operands
        exprs = x if self.order == "l2r" else list(reversed(x))
        return ("eval", exprs[0], env, ("args", [], exprs[1:], env, k))

    def shadowed(self, name, env):
        # a special form name rebound as a variable: the generators never do this
        return False

    def step_ret(self, v, k):
        tag = k[0]
        if tag == "args":
            _, done, rest, env, k2 = k
            done = done + [v]
            if rest:
                return ("eval", rest[0], env, ("args", done, rest[1:], env, k2))
            if self.order != "l2r":
                done = list(reversed(done))
            return ("apply", done[0], done[1:], k2)
        if tag == "if":
            _, then, els, env, k2 = k
            if v is not False:
                return ("eval", then, env, k2)
            if els is None:
                return ("ret", VOID, k2)
            return ("eval", els, env, k2)
        if tag == "seq":
            _, rest, env, k2 = k
            if len(rest) == 1:
                return ("eval", rest[0], env, k2)
            return ("eval", rest[0], env, ("seq", rest[1:], env, k2))
        if tag == "define":
            _, name, env, k2 = k
            if isinstance(v, Closure) and v.name == "lambda":
                v.name = name
            env.vars[name] = [v]
            return ("ret", VOID, k2)
        if tag == "set":
            _, name, env, k2 = k
            c = env.lookup_cell(name)
            if c is None or c[0] is UNBOUND:
                raise SchemeError(ErrorObj("set!: free identifier %s" % name))
            c[0] = v
            self.stats["set"] += 1
            return ("ret", VOID, k2)
        if tag == "letrec-init":
            _, name, rest, body, env, k2 = k
            env.vars[name][0] = v
            if isinstance(v, Closure) and v.name == "lambda":
                v.name = name
            if rest:
                return ("eval", rest[0][1], env, ("letrec-init", rest[0][0], rest[1:], body, env, k2))
            return self.eval_body(body, env, k2)
        if tag == "handler-pop":
            _, saved, k2 = k
            self.handlers = saved
            return ("ret", v, k2)
        if tag == "wind-before-done":
            _, before, thunk, after, k2 = k
            w = (before, after)
            self.winders = self.winders + (w,)
            self.stats["winds"] += 1
            return ("apply", thunk, [], ("wind-body-done", w, k2))
        if tag == "wind-body-done":
            _, w, k2 = k
            # normal exit of the body: run the after thunk outside w
            self.winders = tuple(x for x in self.winders if x is not w)
            return ("apply", w[1], [], ("wind-after-done", v, k2))
        if tag == "wind-after-done":
            _, saved, k2 = k
            return ("ret", saved, k2)
        if tag == "wind-steps":
            _, todo, target, then_state, w, kind = k
            if kind == "before":
                self.winders = self.winders + (w,)
            return self._wind_steps(todo, target, then_state)
        if tag == "emit":
            self.emits.append(canon(v))
            return ("ret", v, k[1])
        if tag == "prim-k":
            # continuation of a higher-order primitive implemented in Python as a generator
            _, gen, k2 = k
            return self.drive(gen, v, k2)
        raise RuntimeError("unknown frame %r" % (tag,))

    def eval_body(self, body, env, k):
        """Body with internal defines = letrec* semantics."""
        defs = [f for f in body if isinstance(f, list) and f and f[0] == "define"]
        if defs:
            for f in defs:
                name = f[1][0] if isinstance(f[1], list) else f[1]
                env.vars.setdefault(name, [UNBOUND])
        if len(body) == 1:
            return ("eval", body[0], env, k)
        return ("eval", body[0], env, ("seq", body[1:], env, k))

    # -- apply ----------------------------------------------------------------------------------
    def apply(self, f, args, k):
        if isinstance(f, Closure):
            self.stats["closure_calls"] += 1
            n = len(f.params)
            if len(args) < n or (f.rest is None and len(args) > n):
                raise SchemeError(ErrorObj("arity mismatch calling %s" % f.name))
            env = Env(f.env)
            for p, a in zip(f.params, args):
                env.vars[p] = [a]
            if f.rest is not None:
                env.vars[f.rest] = [py_to_list(args[n:])]
            return self.eval_body(f.body, env, k)
        if isinstance(f, CaseLambda):
            for params, rest, body in f.clauses:
                if len(args) == len(params) or (rest is not None and len(args) >= len(params)):
                    return self.apply(Closure(params, rest, body, f.env, f.name), args, k)
            raise SchemeError(ErrorObj("case-lambda: no clause matches %d arguments" % len(args)))
        if isinstance(f, Prim):
            if len(args) < f.lo or (f.hi is not None and len(args) > f.hi):
                raise SchemeError(ErrorObj("arity mismatch calling %s" % f.name))
            if f.special:
                return f.special(self, args, k)
            r = f.fn(*args)
            if hasattr(r, "send") and hasattr(r, "throw"):
                return self.drive(r, None, k)
            return ("ret", r, k)
        if isinstance(f, Cont):
            if len(args) != 1:
                raise Unsupported("continuation called with %d values" % len(args))
            self.stats["cont_invocations"] += 1
            self.handlers = f.handlers
            return self.unwind_then(f.winders, ("ret", args[0], f.k))
        if isinstance(f, StructType):
            raise SchemeError(ErrorObj("not a procedure"))
        raise SchemeError(ErrorObj("application not a procedure"))

    def drive(self, gen, sendval, k):
        """Higher-order primitives are Python generators that yield ('call', f, args) and finally
        return their value; each yielded call goes through the machine (so callbacks can capture
        continuations, raise, loop...)."""
        try:
            req = gen.send(sendval)
        except StopIteration as s:
            return ("ret", s.value, k)
        _, f, args = req
        return ("apply", f, args, ("prim-k", gen, k))


# ---------------------------------------------------------------------------------------------- special forms

def sf_quote(m, x, env, k):
    return ("ret", datum(x[1]), k)


def datum(d):
    if isinstance(d, list):
        # dotted tail is written [a, b, DOT, c]
        if len(d) >= 3 and d[-2] is DOT:
            return py_to_list([datum(e) for e in d[:-2]], datum(d[-1]))
        return py_to_list([datum(e) for e in d])
    if isinstance(d, VecLit):
        return IVector([datum(e) for e in d.items])
    return d


class VecLit:
    def __init__(self, items):
        self.items = items


class Dot:
    pass


DOT = Dot()


def sf_if(m, x, env, k):
    return ("eval", x[1], env, ("if", x[2], x[3] if len(x) > 3 else None, env, k))


def sf_define(m, x, env, k):
    target = x[1]
    if isinstance(target, list):
        name = target[0]
        lam = [Sym("lambda"), target[1:]] + x[2:]
        return ("eval", lam, env, ("define", name, env, k))
    return ("eval", x[2], env, ("define", target, env, k))


def parse_params(p):
    if isinstance(p, Sym):
        return [], p
    if len(p) >= 2 and p[-2] is DOT:
        return list(p[:-2]), p[-1]
    return list(p), None


def sf_lambda(m, x, env, k):
    params, rest = parse_params(x[1])
    return ("ret", Closure(params, rest, x[2:], env), k)


def sf_case_lambda(m, x, env, k):
    clauses = []
    for c in x[1:]:
        params, rest = parse_params(c[0])
        clauses.append((params, rest, c[1:]))
    return ("ret", CaseLambda(clauses, env), k)


def sf_set(m, x, env, k):
    return ("eval", x[2], env, ("set", x[1], env, k))


def sf_begin(m, x, env, k):
    if len(x) == 1:
        return ("ret", VOID, k)
    if len(x) == 2:
        return ("eval", x[1], env, k)
    return ("eval", x[1], env, ("seq", x[2:], env, k))


def sf_let(m, x, env, k):
    if isinstance(x[1], Sym):   # named let
        name, binds, body = x[1], x[2], x[3:]
        lam = [Sym("lambda"), [b[0] for b in binds]] + body
        return ("eval", [[Sym("letrec"), [[name, lam]], name]] + [b[1] for b in binds], env, k)
    binds, body = x[1], x[2:]
    lam = [Sym("lambda"), [b[0] for b in binds]] + body
    return ("eval", [lam] + [b[1] for b in binds], env, k)


def sf_letstar(m, x, env, k):
    binds, body = x[1], x[2:]
    if len(binds) <= 1:
        return ("eval", [Sym("let"), binds] + body, env, k)
    return ("eval", [Sym("let"), [binds[0]], [Sym("let*"), binds[1:]] + body], env, k)


def sf_letrec(m, x, env, k):
    binds, body = x[1], x[2:]
    e = Env(env)
    for b in binds:
        e.vars[b[0]] = [UNBOUND]
    if not binds:
        return m.eval_body(body, e, k)
    return ("eval", binds[0][1], e, ("letrec-init", binds[0][0], binds[1:], body, e, k))


def sf_cond(m, x, env, k):
    clauses = x[1:]
    if not clauses:
        return ("ret", VOID, k)
    c = clauses[0]
    if c[0] == "else":
        return ("eval", [Sym("begin")] + c[1:], env, k)
    rest = [Sym("cond")] + clauses[1:]
    if len(c) == 1:
        return ("eval", [Sym("or"), c[0], rest], env, k)
    return ("eval", [Sym("if"), c[0], [Sym("begin")] + c[1:], rest], env, k)


def sf_and(m, x, env, k):
    if len(x) == 1:
        return ("ret", True, k)
    if len(x) == 2:
        return ("eval", x[1], env, k)
    return ("eval", [Sym("if"), x[1], [Sym("and")] + x[2:], False], env, k)


def sf_or(m, x, env, k):
    if len(x) == 1:
        return ("ret", False, k)
    if len(x) == 2:
        return ("eval", x[1], env, k)
    t = Sym("%%or-tmp%d" % len(x))
    # hygienic enough: the temp name cannot be written by the generators
    return ("eval", [Sym("let"), [[t, x[1]]], [Sym("if"), t, t, [Sym("or")] + x[2:]]], env, k)


def sf_when(m, x, env, k):
    return ("eval", [Sym("if"), x[1], [Sym("begin")] + x[2:]], env, k)


def sf_unless(m, x, env, k):
    return ("eval", [Sym("if"), x[1], VOID_EXPR, [Sym("begin")] + x[2:]], env, k)


VOID_EXPR = Sym("void")


def sf_case(m, x, env, k):
    t = Sym("%%case-key")
    clauses = []
    for c in x[2:]:
        if c[0] == "else":
            clauses.append([Sym("else")] + c[1:])
        else:
            tests = [[Sym("equal?"), t, [Sym("quote"), d]] for d in c[0]]
            clauses.append([[Sym("or")] + tests] + c[1:])
    return ("eval", [Sym("let"), [[t, x[1]]], [Sym("cond")] + clauses], env, k)


def sf_do(m, x, env, k):
    specs, (test, *res), body = x[1], x[2], x[3:]
    loop = Sym("%%do-loop")
    steps = [s[2] if len(s) > 2 else s[0] for s in specs]
    return ("eval", [Sym("let"), loop, [[s[0], s[1]] for s in specs],
                     [Sym("if"), test, [Sym("begin")] + (res or [VOID_EXPR]),
                      [Sym("begin")] + body + [[loop] + steps]]], env, k)


def sf_with_handler(m, x, env, k):
    # (with-handler handler-expr body ...): evaluate the handler expression first
    t = Sym("%%handler")
    return ("eval", x[1], env, ("wh-handler", x[2:], env, k))


def sf_emit(m, x, env, k):
    return ("eval", x[1], env, ("emit", k))


def sf_struct(m, x, env, k):
    name = x[1]
    fields = x[2]
    opts = x[3:]
    mutable = Sym("#:mutable") in opts
    transparent = Sym("#:transparent") in opts
    t = StructType(str(name), [str(f) for f in fields], mutable, transparent)
    nf = len(fields)
    env.vars[name] = [Prim(str(name), lambda *a: StructInst(t, a), nf, nf)]
    env.vars[Sym(name + "?")] = [Prim(name + "?", lambda v: isinstance(v, StructInst) and v.type is t, 1, 1)]
    for i, f in enumerate(fields):
        def getter(v, i=i):
            if not (isinstance(v, StructInst) and v.type is t):
                raise SchemeError(ErrorObj("struct accessor: wrong type"))
            return v.fields[i]
        env.vars[Sym("%s-%s" % (name, f))] = [Prim("%s-%s" % (name, f), getter, 1, 1)]
        if mutable:
            def setter(v, nv, i=i):
                if not (isinstance(v, StructInst) and v.type is t):
                    raise SchemeError(ErrorObj("struct mutator: wrong type"))
                v.fields[i] = nv
                return VOID
            env.vars[Sym("set-%s-%s!" % (name, f))] = [Prim("set-%s-%s!" % (name, f), setter, 2, 2)]
    return ("ret", VOID, k)


_PCOUNT = [0]


def sf_parameterize(m, x, env, k):
    """Steel's own expansion (scheme/modules/parameters.scm): one dynamic-wind per binding, the old value read once
    outside, the new value expression evaluated by the before thunk."""
    binds, body = x[1], x[2:]
    if not binds:
        return ("eval", [Sym("begin")] + body, env, k)
    var, val = binds[0]
    _PCOUNT[0] += 1
    old = Sym("#:old%d" % _PCOUNT[0])
    lam = Sym("lambda")
    return ("eval", [Sym("let"), [[old, [var]]],
                     [Sym("dynamic-wind"), [lam, [], [var, val]],
                      [lam, [], [Sym("parameterize"), binds[1:]] + body],
                      [lam, [], [var, old]]]], env, k)


SPECIAL = {
    "parameterize": sf_parameterize,
    "quote": sf_quote, "if": sf_if, "define": sf_define, "lambda": sf_lambda, "set!": sf_set, "begin": sf_begin,
    "let": sf_let, "let*": sf_letstar, "letrec": sf_letrec, "letrec*": sf_letrec, "cond": sf_cond, "and": sf_and,
    "or": sf_or, "when": sf_when, "unless": sf_unless, "case": sf_case, "do": sf_do,
    "with-handler": sf_with_handler, "case-lambda": sf_case_lambda, "verif-emit": sf_emit, "struct": sf_struct,
}


# frames that need the machine but are produced by special forms
def _patch_step_ret():
    orig = Machine.step_ret

    def step_ret(self, v, k):
        if k[0] == "wh-handler":
            _, body, env, k2 = k
            saved = self.handlers
            self.handlers = self.handlers + ((v, k2, self.winders),)
            kk = ("handler-pop", saved, k2)
            if len(body) == 1:
                return ("eval", body[0], env, kk)
            return ("eval", body[0], env, ("seq", body[1:], env, kk))
        return orig(self, v, k)
    Machine.step_ret = step_ret


_patch_step_ret()


# ---------------------------------------------------------------------------------------------- primitives

def need(cond, msg="type mismatch"):
    if not cond:
        raise SchemeError(ErrorObj(msg))


def num(v):
    need(is_number(v), "expected a number")
    return v


def norm(v):
    if isinstance(v, Fraction):
        if v.numerator.bit_length() > 20000 or v.denominator.bit_length() > 20000:
            raise Unsupported("number too large for the reference run")
        if v.denominator == 1:
            return int(v.numerator)
    elif isinstance(v, int) and not isinstance(v, bool) and v.bit_length() > 20000:
        raise Unsupported("number too large for the reference run")
    return v


def exact_int(v):
    need(isinstance(v, int) and not isinstance(v, bool), "expected an exact integer")
    return v


ALLOW_MUTABLE_VECTOR_KEYS = False


def install_prims(m):
    g = m.globals.vars

    def defprim(name, fn, lo, hi=-1, special=None):
        g[Sym(name)] = [Prim(name, fn, lo, lo if hi == -1 else hi, special)]

    def add(*a):
        r = 0
        for x in a:
            r = r + num(x)
        return norm(r)

    def sub(*a):
        if len(a) == 1:
            return norm(-num(a[0]))
        r = num(a[0])
        for x in a[1:]:
            r = r - num(x)
        return norm(r)

    def mul(*a):
        r = 1
        for x in a:
            r = norm(r * num(x))
        return norm(r)

    def div(*a):
        for x in a:
            num(x)
        if any(isinstance(x, float) for x in a):
            raise Unsupported("inexact division")
        if len(a) == 1:
            need(a[0] != 0, "division by zero")
            return norm(Fraction(1) / a[0])
        r = Fraction(a[0])
        for x in a[1:]:
            need(x != 0, "division by zero")
            r = r / x
        return norm(r)

    defprim("+", add, 0, None)
    defprim("-", sub, 1, None)
    defprim("*", mul, 0, None)
    defprim("/", div, 1, None)

    def cmp(name, f):
        def go(*a):
            for x in a:
                num(x)
                if isinstance(x, float) and math.isnan(x):
                    raise Unsupported("nan comparison")
            return all(f(x, y) for x, y in zip(a, a[1:]))
        defprim(name, go, 2 if name == "=" else 1, 2 if name == "=" else None)
    cmp("=", lambda x, y: x == y)
    cmp("<", lambda x, y: x < y)
    cmp(">", lambda x, y: x > y)
    cmp("<=", lambda x, y: x <= y)
    cmp(">=", lambda x, y: x >= y)

    def trunc_div(a, b):
        q = abs(a) // abs(b)
        return q if (a >= 0) == (b >= 0) else -q

    def quotient(a, b):
        exact_int(a), exact_int(b)
        need(b != 0, "division by zero")
        return trunc_div(a, b)

    def remainder(a, b):
        exact_int(a), exact_int(b)
        need(b != 0, "division by zero")
        return a - b * trunc_div(a, b)

    def modulo(a, b):
        exact_int(a), exact_int(b)
        need(b != 0, "division by zero")
        return a % b
    defprim("quotient", quotient, 2)
    defprim("remainder", remainder, 2)
    defprim("modulo", modulo, 2)
    defprim("abs", lambda a: norm(abs(num(a))), 1)
    defprim("min", lambda *a: norm(min(num(x) for x in a)), 1, None)
    defprim("max", lambda *a: norm(max(num(x) for x in a)), 1, None)
    defprim("zero?", lambda a: num(a) == 0, 1)
    defprim("positive?", lambda a: num(a) > 0, 1)
    defprim("negative?", lambda a: num(a) < 0, 1)
    defprim("even?", lambda a: exact_int(a) % 2 == 0, 1)
    defprim("odd?", lambda a: exact_int(a) % 2 == 1, 1)
    defprim("add1", lambda a: norm(num(a) + 1), 1)
    defprim("sub1", lambda a: norm(num(a) - 1), 1)
    defprim("square", lambda a: norm(num(a) * num(a)), 1)
    defprim("number?", is_number, 1)
    defprim("integer?", lambda a: isinstance(a, int) and not isinstance(a, bool), 1)
    defprim("not", lambda a: a is False, 1)
    g[Sym("void")] = [VOID]     # pinned: in Steel `void` is the value itself, (void) is an error

    def eqp(a, b):
        if isinstance(a, (Sym, bool)) or a is NIL or a is VOID:
            return a is b or (type(a) is type(b) and a == b)
        if isinstance(a, int) and isinstance(b, int) and not isinstance(b, bool) and abs(a) < 2 ** 60 and abs(b) < 2 ** 60:
            return a == b
        if isinstance(a, Char) and isinstance(b, Char):
            return a == b
        if isinstance(a, (MVector, Box, StructInst, Closure, ByteVec)) or isinstance(b, (MVector, Box, StructInst, Closure, ByteVec)):
            return a is b
        raise Unsupported("eq? on %r" % type(a))
    defprim("eq?", eqp, 2)

    def equalp(a, b):
        for v in (a, b):
            if isinstance(v, (Closure, Prim, Cont)):
                raise Unsupported("equal? on a procedure")
        return canon_eq(a, b)
    defprim("equal?", equalp, 2)
    defprim("eqv?", eqp, 2)

    # pairs and lists
    defprim("cons", lambda a, b: Pair(a, b), 2)

    def car(p):
        need(isinstance(p, Pair), "car expected a pair")
        return p.car

    def cdr(p):
        need(isinstance(p, Pair), "cdr expected a pair")
        return p.cdr
    defprim("car", car, 1)
    defprim("cdr", cdr, 1)
    defprim("first", car, 1)
    defprim("rest", cdr, 1)
    defprim("cadr", lambda p: car(cdr(p)), 1)
    defprim("cddr", lambda p: cdr(cdr(p)), 1)
    defprim("caar", lambda p: car(car(p)), 1)
    defprim("caddr", lambda p: car(cdr(cdr(p))), 1)
    defprim("second", lambda p: car(cdr(p)), 1)
    defprim("third", lambda p: car(cdr(cdr(p))), 1)
    defprim("list", lambda *a: py_to_list(list(a)), 0, None)
    defprim("null?", lambda a: a is NIL, 1)
    defprim("empty?", lambda a: a is NIL, 1)
    defprim("pair?", lambda a: isinstance(a, Pair), 1)
    defprim("list?", lambda a: list_to_py(a) is not None, 1)

    def plist(v, what="list"):
        l = list_to_py(v)
        need(l is not None, "expected a %s" % what)
        return l
    defprim("length", lambda l: len(plist(l)), 1)

    def append(*ls):
        if not ls:
            return NIL
        out = []
        for l in ls[:-1]:
            out.extend(plist(l))
        need(list_to_py(ls[-1]) is not None, "append expects lists")
        if len(out) > 100000:
            raise Unsupported("list too large for the reference run")
        return py_to_list(out, ls[-1])
    defprim("append", append, 0, None)
    defprim("reverse", lambda l: py_to_list(list(reversed(plist(l)))), 1)

    def list_ref(l, i):
        l = plist(l)
        exact_int(i)
        need(0 <= i < len(l), "index out of bounds")
        return l[i]
    defprim("list-ref", list_ref, 2)

    def last(l):
        l = plist(l)
        need(l, "last of empty list")
        return l[-1]
    defprim("last", last, 1)

    def list_tail(l, i):
        exact_int(i)
        for _ in range(i):
            need(isinstance(l, Pair), "list-tail")
            l = l.cdr
        return l
    defprim("list-tail", list_tail, 2)

    def member(x, l):
        p = l
        while isinstance(p, Pair):
            if canon_eq(x, p.car):
                return p
            p = p.cdr
        need(p is NIL, "member expects a list")
        return False
    defprim("member", member, 2)

    def assoc(x, l):
        p = l
        while isinstance(p, Pair):
            need(isinstance(p.car, Pair), "assoc expects a list of pairs")
            if canon_eq(x, p.car.car):
                return p.car
            p = p.cdr
        need(p is NIL, "assoc expects a list")
        return False
    defprim("assoc", assoc, 2)

    def range_(a, b):
        exact_int(a), exact_int(b)
        return py_to_list(list(range(a, b)))
    defprim("range", range_, 2)

    # higher-order (generators: callbacks go through the machine)
    def proc(f):
        need(isinstance(f, (Closure, Prim, Cont, CaseLambda)), "expected a procedure")
        return f

    def happly(f, *rest):
        proc(f)
        args = list(rest[:-1]) + plist(rest[-1])
        v = yield ("call", f, args)
        return v
    # apply must be a *tail* call of f: implemented specially
    def apply_special(mach, args, k):
        f = args[0]
        need(isinstance(f, (Closure, Prim, Cont, CaseLambda)), "apply expects a procedure")
        l = list_to_py(args[-1])
        need(l is not None, "apply expects a list")
        return ("apply", f, list(args[1:-1]) + l, k)
    defprim("apply", None, 2, None, special=apply_special)

    # vectors
    defprim("vector", lambda *a: MVector(a), 0, None)
    defprim("immutable-vector", lambda *a: IVector(a), 0, None)

    def make_vector(n, fill=0):
        exact_int(n)
        need(0 <= n <= 100000, "make-vector size")
        return MVector([fill] * n)
    defprim("make-vector", make_vector, 1, 2)

    def vec(v):
        need(isinstance(v, (MVector, IVector)), "expected a vector")
        return v

    def vector_ref(v, i):
        vec(v)
        exact_int(i)
        need(0 <= i < len(v.items), "index out of bounds")
        return v.items[i]
    defprim("vector-ref", vector_ref, 2)

    def vector_set(v, i, x):
        need(isinstance(v, MVector), "vector-set! expects a mutable vector")
        exact_int(i)
        need(0 <= i < len(v.items), "index out of bounds")
        v.items[i] = x
        return VOID
    defprim("vector-set!", vector_set, 3)
    defprim("vector-length", lambda v: len(vec(v).items), 1)
    defprim("vector->list", lambda v: py_to_list(list(vec(v).items)), 1)
    defprim("list->vector", lambda l: IVector(plist(l)), 1)   # pinned: immutable in Steel
    defprim("vector?", lambda v: isinstance(v, (MVector, IVector)), 1)

    def opt_bounds(rest, n):
        need(len(rest) <= 2, "too many arguments")
        for x in rest:
            exact_int(x)
        start = rest[0] if len(rest) > 0 else 0
        end = rest[1] if len(rest) > 1 else n
        need(start >= 0 and end >= 0, "start and end must be non-negative")
        need(end <= n, "end bound is out of range")
        need(start <= end, "start bound cannot be greater than end bound")
        return start, end

    def vector_copy_bang(dest, dest_start, src, *rest):
        # Steel: copies as many elements as fit (the shorter of the source range and the room in dest)
        need(isinstance(dest, MVector), "vector-copy! expects a mutable destination")
        vec(src)
        exact_int(dest_start)
        need(dest_start >= 0, "dest-start")
        start, end = opt_bounds(rest, len(src.items))
        need(dest_start <= len(dest.items), "dest-start must be within the destination")
        buf = list(src.items[start:end])
        for j, x in enumerate(buf):
            if dest_start + j >= len(dest.items):
                break
            dest.items[dest_start + j] = x
        return VOID
    defprim("vector-copy!", vector_copy_bang, 3, 5)

    def vector_fill_bang(v, x, *rest):
        need(isinstance(v, MVector), "vector-fill! expects a mutable vector")
        start, end = opt_bounds(rest, len(v.items))
        for j in range(start, end):
            v.items[j] = x
        return VOID
    defprim("vector-fill!", vector_fill_bang, 2, 4)

    # byte vectors
    def byte(x):
        need(isinstance(x, int) and not isinstance(x, bool) and 0 <= x <= 255, "expected a byte")
        return x

    def bv(v):
        need(isinstance(v, ByteVec), "expected a byte vector")
        return v
    defprim("bytes", lambda *a: ByteVec([byte(x) for x in a]), 0, None)
    defprim("bytevector", lambda *a: ByteVec([byte(x) for x in a]), 0, None)
    defprim("bytes?", lambda v: isinstance(v, ByteVec), 1)
    defprim("bytes-length", lambda v: len(bv(v).items), 1)

    def bytes_ref(v, i):
        bv(v)
        exact_int(i)
        need(0 <= i < len(v.items), "index out of bounds")
        return v.items[i]
    defprim("bytes-ref", bytes_ref, 2)

    def bytes_set(v, i, x):
        bv(v)
        exact_int(i)
        byte(x)
        need(0 <= i < len(v.items), "index out of bounds")
        v.items[i] = x
        return VOID
    defprim("bytes-set!", bytes_set, 3)

    def bytes_push(v, x):
        bv(v).items.append(byte(x))
        return VOID
    defprim("bytes-push!", bytes_push, 2)
    defprim("bytes->list", lambda v: py_to_list(list(bv(v).items)), 1)
    defprim("list->bytes", lambda l: ByteVec([byte(x) for x in plist(l)]), 1)
    defprim("bytes-append", lambda *a: ByteVec([x for v in a for x in bv(v).items]), 0, None)

    def bytes_copy(v, *rest):
        bv(v)
        need(len(rest) <= 2, "too many arguments")
        for x in rest:
            exact_int(x)
        start = rest[0] if rest else 0
        end = rest[1] if len(rest) > 1 else len(v.items)
        need(0 <= start <= end <= len(v.items), "bytes-copy range")
        return ByteVec(v.items[start:end])
    defprim("bytes-copy", bytes_copy, 1, 3)

    # boxes
    defprim("box", lambda v: Box(v), 1)

    def unbox(b):
        need(isinstance(b, Box), "unbox expects a box")
        return b.value

    def set_box(b, v):
        need(isinstance(b, Box), "set-box! expects a box")
        b.value = v
        return VOID
    defprim("unbox", unbox, 1)
    defprim("set-box!", set_box, 2)
    defprim("box?", lambda b: isinstance(b, Box), 1)

    # strings / chars / symbols
    def s(v):
        need(isinstance(v, str) and not isinstance(v, Sym), "expected a string")
        return v
    def string_append(*a):
        r = "".join(s(x) for x in a)
        if len(r) > 100000:
            raise Unsupported("string too large for the reference run")
        return r
    defprim("string-append", string_append, 0, None)
    defprim("string-length", lambda a: len(s(a)), 1)
    defprim("string?", lambda a: isinstance(a, str) and not isinstance(a, Sym), 1)
    defprim("symbol?", lambda a: isinstance(a, Sym), 1)
    defprim("string=?", lambda a, b: s(a) == s(b), 2)
    defprim("string<?", lambda a, b: s(a) < s(b), 2)

    def substring(a, i, j):
        s(a), exact_int(i), exact_int(j)
        need(0 <= i <= j <= len(a), "substring range")
        return a[i:j]
    defprim("substring", substring, 3)
    defprim("string->symbol", lambda a: Sym(s(a)), 1)

    def symbol_to_string(a):
        need(isinstance(a, Sym), "expected a symbol")
        return str(a)
    defprim("symbol->string", symbol_to_string, 1)

    def number_to_string(a):
        num(a)
        if isinstance(a, float):
            raise Unsupported("number->string of a double")
        return display_str(a)
    defprim("number->string", number_to_string, 1)

    def string_to_list(a):
        return py_to_list([Char(ord(c)) for c in s(a)])
    defprim("string->list", string_to_list, 1)
    defprim("char->integer", lambda c: (need(isinstance(c, Char)), c.cp)[1], 1)
    defprim("string-upcase", lambda a: s(a).upper() if s(a).isascii() else (_ for _ in ()).throw(Unsupported("upcase non-ascii")), 1)

    # hash maps
    def hkey(k):
        if isinstance(k, MVector) and ALLOW_MUTABLE_VECTOR_KEYS:
            return canon(k)      # (C11's equality programs never mutate a key after it was inserted)
        if isinstance(k, (Closure, Prim, Cont, MVector, Box)):
            raise Unsupported("mutable / procedure hash key")
        if isinstance(k, float):
            raise Unsupported("double hash key")
        return canon(k)

    def mkhash(*a):
        need(len(a) % 2 == 0, "hash expects key/value pairs")
        d = {}
        for i in range(0, len(a), 2):
            d[hkey(a[i])] = (a[i], a[i + 1])
        return HashMap(d)
    defprim("hash", mkhash, 0, None)

    def hm(h):
        need(isinstance(h, HashMap), "expected a hash map")
        return h

    def hash_ref(h, k):
        e = hm(h).d.get(hkey(k))
        need(e is not None, "key not found")
        return e[1]
    defprim("hash-ref", hash_ref, 2)
    defprim("hash-get", hash_ref, 2)

    def hash_try_get(h, k):
        e = hm(h).d.get(hkey(k))
        return e[1] if e is not None else False
    defprim("hash-try-get", hash_try_get, 2)

    def hash_insert(h, k, v):
        d = dict(hm(h).d)
        d[hkey(k)] = (k, v)
        return HashMap(d)
    defprim("hash-insert", hash_insert, 3)

    def hash_remove(h, k):
        d = dict(hm(h).d)
        d.pop(hkey(k), None)
        return HashMap(d)
    defprim("hash-remove", hash_remove, 2)
    defprim("hash-contains?", lambda h, k: hkey(k) in hm(h).d, 2)
    defprim("hash-length", lambda h: len(hm(h).d), 1)
    defprim("hash?", lambda h: isinstance(h, HashMap), 1)
    defprim("hash-empty?", lambda h: len(hm(h).d) == 0, 1)

    def hash_union(a, b):
        # left-biased? pinned by probe: entries of the *first* argument win
        d = dict(hm(b).d)
        d.update(hm(a).d)
        return HashMap(d)
    defprim("hash-union", hash_union, 2)

    def mkset(*a):
        return HashSet({hkey(x): x for x in a})
    defprim("hashset", mkset, 0, None)

    def hs(h):
        need(isinstance(h, HashSet), "expected a hash set")
        return h

    def hashset_insert(h, k):
        d = dict(hs(h).d)
        d[hkey(k)] = k
        return HashSet(d)
    defprim("hashset-insert", hashset_insert, 2)
    defprim("hashset-contains?", lambda h, k: hkey(k) in hs(h).d, 2)
    defprim("hashset-length", lambda h: len(hs(h).d), 1)

    # errors
    def error(*a):
        raise SchemeError(ErrorObj("error", a))
    defprim("error", error, 0, None)

    def raise_(v):
        raise SchemeError(v)
    defprim("raise", raise_, 1)
    defprim("error-object?", lambda v: isinstance(v, ErrorObj), 1)

    # output
    def display(v):
        m.out.append(display_str(v))
        return VOID

    def write(v):
        m.out.append(display_str(v, write=True))
        return VOID

    def newline():
        m.out.append("\n")
        return VOID

    def displayln(v):
        m.out.append(display_str(v) + "\n")
        return VOID
    defprim("display", display, 1)
    defprim("write", write, 1)
    defprim("newline", newline, 0)
    defprim("displayln", displayln, 1)

    # control
    def callcc(mach, args, k):
        f = args[0]
        need(isinstance(f, (Closure, Prim, Cont)), "call/cc expects a procedure")
        return ("apply", f, [Cont(k, mach.winders, mach.handlers)], k)
    defprim("call/cc", None, 1, 1, special=callcc)
    defprim("call-with-current-continuation", None, 1, 1, special=callcc)

    def dynamic_wind(mach, args, k):
        before, thunk, after = args
        for f in args:
            need(isinstance(f, (Closure, Prim, Cont)), "dynamic-wind expects procedures")
        return ("apply", before, [], ("wind-before-done", before, thunk, after, k))
    defprim("dynamic-wind", None, 3, 3, special=dynamic_wind)
    defprim("procedure?", lambda f: isinstance(f, (Closure, Prim, Cont)), 1)
    defprim("boolean?", lambda v: isinstance(v, bool), 1)


def canon_eq(a, b):
    return canon(a) == canon(b)


class ThreadHandle:
    def __init__(self, v):
        self.v = v


def install_extras(m):
    """Threads (run inline: the generated thread bodies share no mutable state with their spawner while
    they run), immutable-vector-push, and the verification builtins as no-ops."""
    g = m.globals.vars

    def waiting():
        v = yield None
        return ThreadHandle(v)

    def spawn(mach, args, k):
        gen = waiting()
        next(gen)
        return ("apply", args[0], [], ("prim-k", gen, k))
    g[Sym("spawn-native-thread")] = [Prim("spawn-native-thread", None, 1, 1, special=spawn)]

    def join(h):
        need(isinstance(h, ThreadHandle), "thread-join!: not a thread")
        return h.v
    g[Sym("thread-join!")] = [Prim("thread-join!", join, 1, 1)]

    def ivpush(v, x):
        need(isinstance(v, IVector), "immutable-vector-push expects an immutable vector")
        return IVector(list(v.items) + [x])
    g[Sym("immutable-vector-push")] = [Prim("immutable-vector-push", ivpush, 2, 2)]
    def cweh(mach, args, k):
        handler, thunk = args
        saved = mach.handlers
        mach.handlers = mach.handlers + ((handler, k, mach.winders),)
        return ("apply", thunk, [], ("handler-pop", saved, k))
    g[Sym("call-with-exception-handler")] = [Prim("call-with-exception-handler", None, 2, 2, special=cweh)]
    for name in ("#%verif-full-gc", "#%gc-collect"):
        g[Sym(name)] = [Prim(name, lambda: VOID, 0, 0)]
    # hands a closure to the host side (the engine then sees an opaque host function rooted by the host): same procedure
    g[Sym("#%closure->boxed-function")] = [Prim("#%closure->boxed-function", lambda f: f, 1, 1)]


# ---------------------------------------------------------------------------------------------- source emitter

def to_source(x):
    """AST -> Scheme text."""
    if isinstance(x, bool):
        return "#t" if x else "#f"
    if isinstance(x, Sym):
        return str(x)
    if isinstance(x, int):
        return str(x)
    if isinstance(x, Fraction):
        return "%d/%d" % (x.numerator, x.denominator) if x.denominator != 1 else str(x.numerator)
    if isinstance(x, float):
        r = repr(x)
        return r if ("." in r or "e" in r) else r + ".0"
    if isinstance(x, str):
        out = ['"']
        for c in x:
            if c == '"':
                out.append('\\"')
            elif c == "\\":
                out.append("\\\\")
            elif c == "\n":
                out.append("\\n")
            else:
                out.append(c)
        out.append('"')
        return "".join(out)
    if isinstance(x, Char):
        return "#\\" + chr(x.cp)
    if x is DOT:
        return "."
    if isinstance(x, VecLit):
        return "#(" + " ".join(to_source(e) for e in x.items) + ")"
    if isinstance(x, list):
        if len(x) == 2 and x[0] == "quote":
            return "'" + to_source(x[1])
        return "(" + " ".join(to_source(e) for e in x) + ")"
    raise TypeError("cannot emit %r" % (x,))


def program_source(forms):
    return "\n".join(to_source(f) for f in forms)


def evaluate(forms, fuel=200000, order="l2r"):
    """Run a program on the reference machine.
    Returns dict(outcome='ok'|'err', out=str, emits=[canon...], steps=int, stats=dict, raised=payload canon or None)."""
    m = Machine(fuel=fuel, order=order)
    outcome, payload = m.run_program(forms)
    raised = None
    if outcome == "err":
        try:
            raised = canon(payload)
        except Unsupported:
            raised = "?"
    return {"outcome": outcome, "out": "".join(m.out), "emits": m.emits, "steps": m.steps, "stats": m.stats,
            "raised": raised}


def reference(forms, fuel=200000):
    """Evaluate under both operand orders; None if the program is order-sensitive, out of fuel, or
    leaves the pinned subset."""
    try:
        a = evaluate(forms, fuel, "l2r")
        b = evaluate(forms, fuel, "r2l")
    except (OutOfFuel, Unsupported, RecursionError):
        return None
    if (a["outcome"], a["out"], a["emits"]) != (b["outcome"], b["out"], b["emits"]):
        return None
    return a


# ---------------------------------------------------------------------------------------------- mini reader (for templates)

def parse(text):
    """Text -> list of AST forms (the subset of syntax the templates use)."""
    import re
    tok = re.compile(r"""\s+|;[^\n]*|(\#\(|[()\[\]]|'|"(?:[^"\\]|\\.)*"|\#\\[A-Za-z]+|\#\\.|[^\s()\[\]'";]+)""")
    toks = [m.group(1) for m in tok.finditer(text) if m.group(1) is not None]
    pos = [0]

    def atom(t):
        if t == "#t" or t == "#true":
            return True
        if t == "#f" or t == "#false":
            return False
        if t.startswith('"'):
            return t[1:-1].replace("\\n", "\n").replace('\\"', '"').replace("\\\\", "\\")
        if t.startswith("#\\"):
            name = t[2:]
            named = {"space": 32, "newline": 10, "tab": 9, "nul": 0}
            return Char(named[name]) if name in named else Char(ord(name))
        if re.fullmatch(r"[-+]?\d+", t):
            return int(t)
        if re.fullmatch(r"[-+]?\d+/\d+", t):
            n, d = t.split("/")
            return norm(Fraction(int(n), int(d)))
        if re.fullmatch(r"[-+]?(\d+\.\d*|\.\d+|\d+)([eE][-+]?\d+)?", t):
            return float(t)
        if t == ".":
            return DOT
        return Sym(t)

    def read():
        t = toks[pos[0]]
        pos[0] += 1
        if t in ("(", "["):
            out = []
            while toks[pos[0]] not in (")", "]"):
                out.append(read())
            pos[0] += 1
            return out
        if t == "#(":
            out = []
            while toks[pos[0]] != ")":
                out.append(read())
            pos[0] += 1
            return VecLit(out)
        if t == "'":
            return [Sym("quote"), read()]
        return atom(t)
    forms = []
    while pos[0] < len(toks):
        forms.append(read())
    return forms


HOF_SOURCE = """
(define (make-parameter v) (let ((cell (box v))) (lambda args (if (null? args) (unbox cell) (set-box! cell (car args))))))
(define (map f l . more)
  (if (null? more)
      (let loop ((l l) (acc (quote ())))
        (if (null? l) (reverse acc) (let ((v (f (car l)))) (loop (cdr l) (cons v acc)))))
      (let loop ((l l) (m (car more)) (acc (quote ())))
        (cond ((and (null? l) (null? m)) (reverse acc))
              ((or (null? l) (null? m)) (error "map: lists of different length"))
              (else (let ((v (f (car l) (car m)))) (loop (cdr l) (cdr m) (cons v acc))))))))
(define (for-each f l) (if (null? l) void (begin (f (car l)) (for-each f (cdr l)))))
(define (filter f l)
  (let loop ((l l) (acc (quote ())))
    (if (null? l) (reverse acc) (if (f (car l)) (loop (cdr l) (cons (car l) acc)) (loop (cdr l) acc)))))
(define (foldl f init l) (if (null? l) init (foldl f (f (car l) init) (cdr l))))
(define (foldr f init l) (if (null? l) init (f (car l) (foldr f init (cdr l)))))
"""
