"""Seeded generators of hostile source texts (shared by C07 and C12)."""
import os

from . import core

TOKENS = ["(", ")", "[", "]", "{", "}", "'", "`", ",", ",@", "#(", "#u8(", "#;", "#|", "|#", ";", "\"", "\\", ".",
          "...", "#t", "#f", "#true", "#false", "#\\a", "#\\space", "#\\x41", "#\\", "#\\x", "#\\xD800", "#\\x110000",
          "0", "1", "-1", "+", "-", "1.5", "1e10", "1e", "1/2", "1/0", "-1/2", "#x1F", "#b101", "#o17", "#e1.5", "#i1/2",
          "#xFFFFFFFFFFFFFFFFFFFF", "+inf.0", "-inf.0", "+nan.0", "1+2i", "+i", "#d10", "#e#x10", "1_000", "١٢٣",
          "define", "lambda", "let", "let*", "letrec", "if", "cond", "else", "begin", "set!", "quote", "quasiquote",
          "unquote", "unquote-splicing", "define-syntax", "syntax-rules", "require", "provide", "=>", "struct",
          "when", "unless", "and", "or", "case", "do", "delay", "define-values", "call/cc", "dynamic-wind",
          "x", "y", "foo", "|a b|", "||", "|", "a|b", "λ", "名前", "\u200b", "\ufeff", "\x00", "\x7f", "\t", "\n", "\r\n",
          " ", "#!eof", "#%", "#%prim", "#:kw", "#<void>", "#'x", "#`x", "#,x", "#hash", "'()", "\"\\x41;\"", "\"\\u{41}\"",
          "\"\\q\"", "\"unterminated", "#| nested #| x |# |#", "#;(datum comment)", "@", "~", "^", "&", "%", "$", "!", "?", "*",
          "/", "<", ">", "=", ":", "::", "#", "##", "#\\(", "#\\)", "1.", ".5", "-.5", "+.5", "1e400", "-0.0", "-0",
          "9223372036854775807", "9223372036854775808", "-9223372036854775809", "1/9223372036854775808"]

SEED_PROGRAMS = [
    "(define (f x) (+ x 1)) (f 2)",
    "(let loop ((i 0) (acc '())) (if (< i 3) (loop (+ i 1) (cons i acc)) acc))",
    "(define-syntax swap! (syntax-rules () ((_ a b) (let ((tmp a)) (set! a b) (set! b tmp)))))",
    "(map (lambda (x . rest) (list x rest)) '(1 2 3))",
    "(cond ((assv 'b '((a 1) (b 2))) => cadr) (else #f))",
    "`(1 ,(+ 1 1) ,@(list 3 4) . 5)",
    "(struct point (x y) #:transparent) (point-x (point 1 2))",
    "(with-handler (lambda (e) 'caught) (error \"boom\" 1 2))",
    "(call/cc (lambda (k) (dynamic-wind (lambda () 1) (lambda () (k 2)) (lambda () 3))))",
    "(define v (vector 1 2 3)) (vector-set! v 0 'a) (hash 'a 1 \"b\" #\\c)",
    "(letrec ((even? (lambda (n) (if (= n 0) #t (odd? (- n 1))))) (odd? (lambda (n) (if (= n 0) #f (even? (- n 1)))))) (even? 10))",
    "(define-values (a b) (values 1 2)) (case (* 2 3) ((2 3 5 7) 'prime) ((1 4 6 8 9) 'composite))",
    "(do ((i 0 (+ i 1))) ((= i 3) 'done) (display i))",
    "(string-append \"a\\tb\" (number->string 1/3) (symbol->string 'x))",
    "(apply + 1 2 '(3 4))  (let-values (((q r) (floor/ 7 2))) (list q r))",
    "(begin (define x 5) (set! x (+ x 1)) x) #;(ignored) #| block |# ; line\n'done",
    "(when #t 1 2) (unless #f 3) (and 1 2) (or #f 3) (let* ((a 1) (b a)) b)",
    "(require \"steel/result\") (provide foo (contract/out bar (->/c int? int?)))",
    "(define/contract (g x) (->/c number? number?) x) (#%black-box)",
    "(parameterize ((p 1)) (p)) (delay 1) (make-parameter 3) (case-lambda ((x) x) ((x y) y))",
]


def rand_unicode(r, n):
    out = []
    for _ in range(n):
        k = r.random()
        if k < 0.5:
            out.append(chr(r.randint(0x20, 0x7e)))
        elif k < 0.6:
            out.append(r.choice("()[]'\"`,;#\\|. \n\t"))
        elif k < 0.7:
            out.append(chr(r.randint(0, 0x1f)))
        elif k < 0.85:
            out.append(chr(r.choice([r.randint(0x80, 0x7ff), r.randint(0x800, 0xd7ff), r.randint(0xe000, 0xffff)])))
        else:
            out.append(chr(r.randint(0x10000, 0x10ffff)))
    return "".join(out)


def token_soup(r, n):
    out = []
    for _ in range(n):
        out.append(r.choice(TOKENS))
        if r.random() < 0.7:
            out.append(r.choice([" ", " ", "\n", "", "\t"]))
    return "".join(out)


def balanced_soup(r, n):
    """token soup with balanced delimiters: reaches the parser proper rather than dying in paren matching"""
    out = []
    stack = []
    close = {"(": ")", "[": "]", "{": "}", "#(": ")", "#u8(": ")"}
    for _ in range(n):
        k = r.random()
        if k < 0.25:
            o = r.choice(list(close))
            stack.append(close[o])
            out.append(o)
        elif k < 0.45 and stack:
            out.append(stack.pop())
        else:
            t = r.choice(TOKENS)
            if t in close or t in (")", "]", "}", "\"", "#|", "|#", "|", ";", "\"unterminated", "\\"):
                t = "x"
            out.append(t)
        out.append(" ")
    while stack:
        out.append(stack.pop())
    return "".join(out)


def mutate(r, text):
    k = r.random()
    if not text:
        return "("
    i = r.randrange(len(text))
    j = min(len(text), i + r.randint(1, 12))
    if k < 0.2:
        return text[:i] + text[j:]
    if k < 0.4:
        return text[:i] + text[i:j] * r.randint(2, 4) + text[j:]
    if k < 0.6:
        return text[:i] + r.choice(TOKENS) + text[i:]
    if k < 0.7:
        return text[:i] + rand_unicode(r, r.randint(1, 4)) + text[j:]
    if k < 0.8:
        a, b = sorted((r.randrange(len(text)), r.randrange(len(text))))
        return text[:a] + text[b:] + text[a:b]
    if k < 0.9:
        return text.replace(r.choice(["(", ")", "'", " "]), r.choice(["", "(", ")", "[", "'", ",@", " . "]), r.randint(1, 3))
    return text[:i] + text[i:j][::-1] + text[j:]


def deep(r, depth):
    k = r.randrange(7)
    if k == 0:
        return "(" * depth + ")" * depth
    if k == 1:
        return "'" * depth + "x"
    if k == 2:
        return "(" * depth
    if k == 3:
        return "(quote " * depth + "x" + ")" * depth
    if k == 4:
        return "#(" * depth + ")" * depth
    if k == 5:
        return "(f " * depth + "1" + ")" * depth
    return "`" * (depth // 2) + "," * (depth // 2) + "x"


def literal_stress(r):
    """Grammar-aware numeric/char/string/symbol literals and near-misses."""
    k = r.randrange(10)
    digits = "".join(r.choice("0123456789") for _ in range(r.randint(1, 40)))
    if k == 0:
        return r.choice(["#x", "#b", "#o", "#d", "#e", "#i", "#e#x", "#x#e", "#i#b", ""]) + r.choice(["", "-", "+"]) + \
            "".join(r.choice("0123456789abcdefABCDEF") for _ in range(r.randint(0, 30)))
    if k == 1:
        return r.choice(["", "-", "+"]) + digits + r.choice(["", ".", "." + digits, "/", "/" + digits, "/0", "e", "e" + digits[:3], "e-" + digits[:3], "E+5"])
    if k == 2:
        return r.choice(["+inf.0", "-inf.0", "+nan.0", "-nan.0", "+inf", "inf.0", "+inf.0i", "1+inf.0i", "+i", "-i", "1@2", "1+2i", "1-i", "1/2+3/4i", "1e2+3e4i"])
    if k == 3:
        return "#\\" + r.choice(["a", "space", "newline", "tab", "nul", "null", "alarm", "backspace", "delete", "escape", "return",
                                 "x41", "x", "x0", "xD800", "xDFFF", "x10FFFF", "x110000", "xFFFFFFFFFF", "u41", "U41", "", " ", "(", ")", "λ",
                                 "spac", "spaces", "\\", "#", "x41x", "\U0001F600"])
    if k == 4:
        body = "".join(r.choice(["a", " ", "\\n", "\\t", "\\\\", "\\\"", "\\x41;", "\\x41", "\\u{41}", "\\u{110000}", "\\u{}", "\\x;",
                                  "\\a", "\\0", "\\q", "\\\n   ", "λ", "\n", "\\xD800;", "\\U0001F600", "\U0001F600"]) for _ in range(r.randint(0, 8)))
        return '"' + body + r.choice(['"', '"', '"', ""])
    if k == 5:
        return "|" + rand_unicode(r, r.randint(0, 6)).replace("|", "") + r.choice(["|", "|", ""])
    if k == 6:
        return r.choice(["'", "`", ",", ",@", "#'", "#`", "#,", "#,@", "#;"]) * r.randint(1, 4) + r.choice(["x", "(a b)", "", "()", "#(1)", "1"])
    if k == 7:
        return "(" + " ".join(r.choice(["a", ".", "b", "()", ". .", "1"]) for _ in range(r.randint(1, 5))) + ")"
    if k == 8:
        return "#u8(" + " ".join(r.choice(["0", "255", "256", "-1", "1.0", "a", "#x10", "1/2", "()"]) for _ in range(r.randint(0, 5))) + ")"
    return r.choice(["#|", "#| a |#", "#| #| |# |#", "#| |# |#", "#;", "#; x", "#;#;a b c", "; c\n", "#!eof", "#!fold-case", "#!/bin/steel\n1"])


_repo_files = None


def repo_scheme_files():
    global _repo_files
    if _repo_files is None:
        out = []
        for root in ("cogs", "crates/steel-core/src/scheme", "crates/steel-core/src/tests", "examples", "r7rs-benchmarks",
                     "benchmarks", "steel-examples"):
            base = os.path.join(core.REPO, root)
            for dp, dn, fn in os.walk(base):
                for f in sorted(fn):
                    if f.endswith((".scm", ".rkt", ".ss", ".sls")):
                        p = os.path.join(dp, f)
                        try:
                            if os.path.getsize(p) < 200000:
                                out.append(p)
                        except OSError:
                            pass
        _repo_files = sorted(out)
    return _repo_files


def gen_text(r):
    """Returns (class, text)."""
    k = r.random()
    if k < 0.10:
        n = r.randint(0, 60)
        return "bytes", bytes(r.getrandbits(8) for _ in range(n)).decode("utf-8", "replace")
    if k < 0.22:
        return "unicode", rand_unicode(r, r.randint(0, 80))
    if k < 0.40:
        return "soup", token_soup(r, r.randint(1, 40))
    if k < 0.55:
        return "balanced", balanced_soup(r, r.randint(1, 40))
    if k < 0.75:
        t = r.choice(SEED_PROGRAMS)
        for _ in range(r.randint(1, 4)):
            t = mutate(r, t)
        return "mutant", t
    if k < 0.95:
        return "literal", " ".join(literal_stress(r) for _ in range(r.randint(1, 3)))
    return "deep", deep(r, r.choice([10, 100, 1000, 5000]))
